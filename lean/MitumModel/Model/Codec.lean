import MitumModel.Common
/-
Model of the hint-dispatched JSON codec (util/encoder/json/encoder.go: Decode =
guess "_hint", look the decoder up, call the type's DecodeJSON) together with the
shape every hand-written codec of the repository has: a `…JSONMarshaler` struct
that *writes* a fixed list of members and a `…JSONUnmarshaler` struct that *reads*
a fixed list of members, each member decoded by the codec of the nested object.

Objects and JSON values share one shape: a scalar, or a hinted record whose members
are one level shallower.  `Obj n` is the type of values nested at most `n` deep, so
that every statement below is by induction on the depth and holds for every depth.
What the individual `DecodeJSON` does with a member's value (hash decoding, time
parsing, …) is *not* modelled: scalars round-trip by assumption; that part is carried
by the differential run on the real encoder.
-/
namespace Mitum.Codec

/-- written members / read members of one hinted type -/
structure Entry where
  hint : String
  mtags : List String
  utags : List String
deriving Repr, DecidableEq

def lookup : List Entry → String → Option Entry
  | [], _ => none
  | e :: r, h => if e.hint = h then some e else lookup r h

def Obj : Nat → Type
  | 0 => Nat
  | n + 1 => Nat ⊕ (String × List (String × Obj n))

def getM {V : Type} : List (String × V) → String → Option V
  | [], _ => none
  | (k, v) :: r, t => if k = t then some v else getM r t

/-- the marshaler writes its members in its own order, whatever order the object holds them in -/
def encMembers {V W : Type} (tags : List String) (f : V → W) (fs : List (String × V)) : List (String × W) :=
  tags.filterMap (fun t => (getM fs t).map (fun v => (t, f v)))

/-- the unmarshaler reads its members by name; a missing or undecodable member fails the decode -/
def decMembers {V W : Type} : List String → (W → Option V) → List (String × W) → Option (List (String × V))
  | [], _, _ => some []
  | t :: ts, g, ms =>
    match (getM ms t).bind g with
    | none => none
    | some v => (decMembers ts g ms).map (fun r => (t, v) :: r)

def enc (tbl : List Entry) : (n : Nat) → Obj n → Obj n
  | 0, a => a
  | _ + 1, .inl a => .inl a
  | n + 1, .inr (h, fs) =>
    match lookup tbl h with
    | none => .inr (h, [])
    | some e => .inr (h, encMembers e.mtags (enc tbl n) fs)

def dec (tbl : List Entry) : (n : Nat) → Obj n → Option (Obj n)
  | 0, a => some a
  | _ + 1, .inl a => some (.inl a)
  | n + 1, .inr (h, ms) =>
    match lookup tbl h with
    | none => none
    | some e => (decMembers e.utags (dec tbl n) ms).map (fun fs => .inr (h, fs))

/-- a well-formed object: its hint is registered and it holds every member its marshaler writes -/
def wf (tbl : List Entry) : (n : Nat) → Obj n → Prop
  | 0, _ => True
  | _ + 1, .inl _ => True
  | n + 1, .inr (h, fs) =>
    ∃ e, lookup tbl h = some e ∧ ∀ t, t ∈ e.mtags → ∃ v, getM fs t = some v ∧ wf tbl n v

/-- every member read is written and every member written is read -/
def tableOK (tbl : List Entry) : Bool :=
  tbl.all (fun e => e.utags.all (fun t => e.mtags.contains t) && e.mtags.all (fun t => e.utags.contains t))

end Mitum.Codec
