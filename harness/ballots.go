package main

import (
	"github.com/spikeekips/mitum/base"
	"github.com/spikeekips/mitum/isaac"
	"github.com/spikeekips/mitum/util"
	"github.com/spikeekips/mitum/util/valuehash"
)

// helpers building real signed ballots / voteproofs / proposals (shared by several properties)

var hNetworkID = base.NetworkID("verif-network")

func hINITVoteproof(point base.Point, fact base.INITBallotFact, nodes []base.LocalNode, th base.Threshold) (isaac.INITVoteproof, error) {
	sfs := make([]base.BallotSignFact, len(nodes))
	for i, n := range nodes {
		sf := isaac.NewINITBallotSignFact(fact)
		if err := sf.NodeSign(n.Privatekey(), hNetworkID, n.Address()); err != nil {
			return isaac.INITVoteproof{}, err
		}
		sfs[i] = sf
	}
	vp := isaac.NewINITVoteproof(point)
	vp.SetMajority(fact).SetSignFacts(sfs).SetThreshold(th).Finish()
	return vp, nil
}

func hACCEPTVoteproof(point base.Point, fact base.ACCEPTBallotFact, nodes []base.LocalNode, th base.Threshold) (isaac.ACCEPTVoteproof, error) {
	sfs := make([]base.BallotSignFact, len(nodes))
	for i, n := range nodes {
		sf := isaac.NewACCEPTBallotSignFact(fact)
		if err := sf.NodeSign(n.Privatekey(), hNetworkID, n.Address()); err != nil {
			return isaac.ACCEPTVoteproof{}, err
		}
		sfs[i] = sf
	}
	vp := isaac.NewACCEPTVoteproof(point)
	vp.SetMajority(fact).SetSignFacts(sfs).SetThreshold(th).Finish()
	return vp, nil
}

// hINITBallot: an INIT ballot of `signer` at `point`, carrying the ACCEPT voteproof of the previous height
func hINITBallot(point base.Point, signer base.LocalNode, voters []base.LocalNode, prev, proposal util.Hash) (isaac.INITBallot, error) {
	prevpoint := base.NewPoint(point.Height()-1, 0)
	afact := isaac.NewACCEPTBallotFact(prevpoint, valuehash.RandomSHA256(), prev, nil)
	avp, err := hACCEPTVoteproof(prevpoint, afact, voters, base.Threshold(100))
	if err != nil {
		return isaac.INITBallot{}, err
	}
	fact := isaac.NewINITBallotFact(point, prev, proposal, nil)
	sf := isaac.NewINITBallotSignFact(fact)
	if err := sf.NodeSign(signer.Privatekey(), hNetworkID, signer.Address()); err != nil {
		return isaac.INITBallot{}, err
	}
	return isaac.NewINITBallot(avp, sf, nil), nil
}

// hACCEPTBallot: an ACCEPT ballot of `signer` at `point`, carrying the INIT voteproof of the same point
func hACCEPTBallot(point base.Point, signer base.LocalNode, voters []base.LocalNode, proposal, newblock util.Hash) (isaac.ACCEPTBallot, error) {
	ifact := isaac.NewINITBallotFact(point, valuehash.RandomSHA256(), proposal, nil)
	ivp, err := hINITVoteproof(point, ifact, voters, base.Threshold(100))
	if err != nil {
		return isaac.ACCEPTBallot{}, err
	}
	fact := isaac.NewACCEPTBallotFact(point, proposal, newblock, nil)
	sf := isaac.NewACCEPTBallotSignFact(fact)
	if err := sf.NodeSign(signer.Privatekey(), hNetworkID, signer.Address()); err != nil {
		return isaac.ACCEPTBallot{}, err
	}
	return isaac.NewACCEPTBallot(ivp, sf, nil), nil
}

func hProposal(point base.Point, proposer base.LocalNode, prev util.Hash, ops [][2]util.Hash) (isaac.ProposalSignFact, error) {
	fact := isaac.NewProposalFact(point, proposer.Address(), prev, ops)
	sf := isaac.NewProposalSignFact(fact)
	if err := sf.Sign(proposer.Privatekey(), hNetworkID); err != nil {
		return isaac.ProposalSignFact{}, err
	}
	return sf, nil
}
