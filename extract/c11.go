package main

import "strings"

func init() { register("C11", genC11) }

func genC11(o *Out) {
	f := o.pinFile("isaac/proposal_processors.go", "ProposalProcessors.Process", "ProposalProcessors.Save", "ProposalProcessors.save", "ProposalProcessors.Cancel",
		"ProposalProcessors.newProcessor", "ProposalProcessors.runProcessor")
	g := o.pinFile("isaac/proposal_processor.go", "DefaultProposalProcessor.Process", "DefaultProposalProcessor.Save", "DefaultProposalProcessor.save",
		"DefaultProposalProcessor.Cancel", "DefaultProposalProcessor.isCanceled")
	if f == nil || g == nil {
		return
	}
	body := func(fl *File, recv, name string) string {
		fd := fl.Func(recv, name)
		if fd == nil {
			o.errf("%s.%s not found", recv, name)
			return ""
		}
		return normSpace(fl.Src(fd.Body))
	}
	locked := func(src string) bool { return strings.HasPrefix(src, "{ pps.l.Lock() defer pps.l.Unlock()") }
	o.boolean("saveLocked", locked(body(f, "ProposalProcessors", "Save")))
	o.boolean("cancelLocked", locked(body(f, "ProposalProcessors", "Cancel")))
	pr := body(f, "ProposalProcessors", "Process")
	// the lock is taken first, released on the two early returns and by the goroutine that runs the processor
	o.boolean("processLocked", strings.HasPrefix(pr, "{ pps.l.Lock()") && strings.Count(pr, "pps.l.Unlock()") == 3 &&
		strings.Contains(pr, "go func() { defer pps.l.Unlock() m, err := pps.runProcessor(ctx, p, ivp)") &&
		strings.Contains(pr, "case err != nil: pps.l.Unlock()") && strings.Contains(pr, "case p == nil: pps.l.Unlock()"))
	sv := body(f, "ProposalProcessors", "save")
	i1 := strings.Index(sv, "if avp.Point().Height() <= pps.previousSaved {")
	i2 := strings.Index(sv, "case pps.p == nil:")
	i3 := strings.Index(sv, "case !pps.p.Proposal().Fact().Hash().Equal(facthash):")
	i4 := strings.Index(sv, "pps.previousSaved = avp.Point().Height()")
	i5 := strings.Index(sv, "pps.p.Save(ctx, avp)")
	o.boolean("saveOrder", i1 >= 0 && i1 < i2 && i2 < i3 && i3 < i4 && i4 < i5 &&
		strings.Contains(sv[i1:i2], "return nil, ErrProcessorAlreadySaved") && strings.Count(sv, "pps.previousSaved =") == 1)
	o.boolean("saveDropsProcessor", strings.Count(body(f, "ProposalProcessors", "Save"), "pps.p = nil") == 2)
	dsave := body(g, "DefaultProposalProcessor", "save")
	o.boolean("manifestGuard", strings.HasPrefix(strings.TrimPrefix(dsave, "{ e := util.StringError(\"save\") "),
		"switch { case p.manifest == nil, !p.manifest.Hash().Equal(avp.BallotMajority().NewBlock()): return nil, ErrNotProposalProcessorProcessed"))
	dSave := body(g, "DefaultProposalProcessor", "Save")
	j1 := strings.Index(dSave, "case p.issaved: return nil, ErrProcessorAlreadySaved")
	j2 := strings.Index(dSave, "case p.isCanceled(): return nil, errors.Errorf(\"already canceled\")")
	j3 := strings.Index(dSave, "p.issaved = true")
	j4 := strings.Index(dSave, "p.save(sctx, avp)")
	o.boolean("processorSaveGuards", j1 >= 0 && j1 < j2 && j2 < j3 && j3 < j4 && strings.Contains(dSave, "p.processlock.Lock() defer p.processlock.Unlock()"))
	np := body(f, "ProposalProcessors", "newProcessor")
	o.boolean("sameProposalNotProcessedAgain", strings.Contains(np, "if p.Proposal().Fact().Hash().Equal(facthash) {") && strings.Contains(np, "return nil, nil"))
}
