import MitumModel.Common
/-
Model of signed protocol objects (base/sign.go, base/fact.go, the fact types of
isaac): a fact is a list of named byte fields; its hash is the (ideal,
collision-free) hash of the plain concatenation of the hashed fields in a fixed
order — no separators, no lengths, no kind; a sign is an ideal signature of
`networkID ‖ [node ‖] factHash ‖ signedAt` under the signer's key.

Ideal primitives: the hash is the identity on its input (so equal hashes mean
equal inputs), a signature is the pair (key, message) and can only be produced
by signing.
-/
namespace Mitum.Signed

abbrev Bytes := List UInt8

structure Fact where
  kind : String
  fields : List (String × Bytes)     -- in declaration order
  stored : Bytes                     -- the hash carried by the object
deriving Repr, DecidableEq

def getF : List (String × Bytes) → String → Bytes
  | [], _ => []
  | (k, v) :: r, n => if k = n then v else getF r n

def setF : List (String × Bytes) → String → Bytes → List (String × Bytes)
  | [], _, _ => []
  | (k, v) :: r, n, x => if k = n then (k, x) :: r else (k, v) :: setF r n x

def hasF : List (String × Bytes) → String → Bool
  | [], _ => false
  | (k, _) :: r, n => k = n || hasF r n

def getField (f : Fact) (n : String) : Bytes := getF f.fields n

/-- the hash input: the hashed fields' bytes, concatenated (`util.ConcatByters`) -/
def hashInput (hashed : List String) (f : Fact) : Bytes := (hashed.map (getField f)).flatten

structure Sign where
  signer : Nat                        -- public key
  node : Bytes                        -- empty for a plain `BaseSign`
  signedAt : Bytes
  signature : Nat × Bytes             -- ideal: (key, message)
deriving Repr, DecidableEq

def signMsg (networkID : Bytes) (s : Sign) (factHash : Bytes) : Bytes :=
  networkID ++ (s.node ++ (factHash ++ s.signedAt))

def verify (networkID : Bytes) (f : Fact) (s : Sign) : Bool :=
  decide (s.signature = (s.signer, signMsg networkID s f.stored))

/-- `IsValid(networkID)` of a signed object: the fact's own check (hash recomputed or not)
and every sign verified -/
def valid (hashed : List String) (recomputes : Bool) (networkID : Bytes) (f : Fact) (signs : List Sign) : Bool :=
  (!recomputes || decide (f.stored = hashInput hashed f)) && !signs.isEmpty && signs.all (verify networkID f)

/-- replace one field -/
def setField (f : Fact) (n : String) (v : Bytes) : Fact := { f with fields := setF f.fields n v }

/-- the verdict the model predicts for a same-width change of field `n` of a fact of a kind
whose table entry is `(hashed, recomputes)`: detected iff the field is hashed and the hash is recomputed -/
def detects (table : List (String × List String × Bool)) (kind field : String) : Bool :=
  match table.find? (fun e => e.1 = kind) with
  | some (_, hashed, rec) => rec && hashed.contains field
  | none => false

end Mitum.Signed
