import Batteries.Data.List.Perm
import MitumModel.Model.BlockImport
import MitumModel.Gen.C16
import MitumModel.Pins
/-!
C16  Imported blocks are consistent with their manifest.
-/
namespace Mitum.C16
open Mitum.BlockImport

theorem nodupB_iff (l : List Nat) : nodupB l = true ↔ l.Nodup := by
  induction l with
  | nil => simp [nodupB]
  | cons a r ih => simp [nodupB, ih, List.contains_iff_mem]

/-- pigeonhole: a duplicate-free list inside another list of the same length has the same elements -/
theorem same_elems (t o : List Nat) (ht : t.Nodup) (hsub : ∀ k, k ∈ t → k ∈ o) (hlen : t.length = o.length) :
    ∀ k, k ∈ t ↔ k ∈ o := by
  have h1 : t.Subperm o := List.subperm_of_subset ht hsub
  have h2 : t.Perm o := h1.perm_of_length_le (by omega)
  exact fun k => h2.mem_iff

theorem heightOf_mem (sts : List (Nat × Nat)) (hn : (sts.map (·.1)).Nodup) (s : Nat × Nat) (hs : s ∈ sts) :
    heightOf sts s.1 = some s.2 := by
  induction sts with
  | nil => simp at hs
  | cons a r ih =>
    obtain ⟨ah, aht⟩ := a
    simp only [List.map_cons, List.nodup_cons, List.mem_map, not_exists, not_and] at hn
    rcases List.mem_cons.mp hs with h | h
    · subst h; simp [heightOf]
    · have hne : ¬ ah = s.1 := fun e => hn.1 s h e.symm
      simp only [heightOf, hne, if_false]
      exact ih hn.2 h

/-- a key with a height is the hash of one of the states -/
theorem heightOf_some_mem (sts : List (Nat × Nat)) (k ht : Nat) (h : heightOf sts k = some ht) :
    k ∈ sts.map (·.1) := by
  induction sts with
  | nil => simp [heightOf] at h
  | cons a r ih =>
    obtain ⟨ah, aht⟩ := a
    by_cases e : ah = k
    · simp [e]
    · simp only [heightOf, e, if_false] at h
      simp only [List.map_cons, List.mem_cons]
      exact Or.inr (ih h)

def fixed : Checks := { emptyRootChecked := true, majorityChecked := true, importerChecksItems := true }

/-- **validator_implies_consistent.**  With the two repaired clauses, a block the reference validator
accepts is consistent with its manifest: proposal, operations and states are those the manifest's
roots commit to (every state at the manifest's height), and the voteproofs are of the manifest's
height, of one point, with an ACCEPT majority for the manifest hash.  The trees are the ones agreed
by consensus through the manifest hash: their keys are distinct (hypotheses `hT`, `hS`; see
`duplicate_tree_key_witness`). -/
theorem validator_implies_consistent (c : Checks) (he : c.emptyRootChecked = true) (hm : c.majorityChecked = true)
    (hso : c.validatorOpSelf = true) (hss : c.validatorStateSelf = true)
    (b : Blk) (hT : b.opsTree.Nodup) (hS : b.stsTree.Nodup)
    (h : validatorAccepts c b = true) : consistent b := by
  simp only [validatorAccepts, vSelf, proposalOK, opsOK, stsOK, vpOK, he, hm, hso, hss, Bool.and_eq_true, beq_iff_eq,
    Bool.not_true, Bool.false_or] at h
  obtain ⟨⟨⟨⟨⟨hp1, hp2⟩, ho1, ho2⟩, hs1, hs2⟩, ⟨⟨hv1, hv2⟩, hv3⟩, hv4⟩, hb1, hb2⟩ := h
  refine ⟨hp1, hp2, ?_, ho1, ?_, ?_, hs1, ?_, ?_, hv1, hv2, hv3, hv4, hb1, hb2⟩
  · -- operations: same elements
    by_cases h0 : b.ops.length = 0
    · have e1 : b.ops = [] := List.eq_nil_of_length_eq_zero h0
      have e2 : b.opsTree = [] := List.eq_nil_of_length_eq_zero (by omega)
      simp [e1, e2]
    · simp only [h0, if_false, Bool.and_eq_true, beq_iff_eq, List.all_eq_true, List.contains_iff_mem] at ho2
      exact same_elems _ _ hT ho2.1.2 ho1
  · by_cases h0 : b.ops.length = 0
    · have e1 : b.ops = [] := List.eq_nil_of_length_eq_zero h0
      simpa [h0, e1] using ho2
    · have e1 : b.ops ≠ [] := fun e => h0 (by simp [e])
      simp only [h0, if_false, Bool.and_eq_true, beq_iff_eq] at ho2
      simp [e1, ho2.2]
  · by_cases h0 : b.sts.length = 0
    · have e1 : b.sts = [] := List.eq_nil_of_length_eq_zero h0
      have e2 : b.stsTree = [] := List.eq_nil_of_length_eq_zero (by omega)
      simp [e1, e2]
    · simp only [h0, if_false, Bool.and_eq_true, beq_iff_eq, List.all_eq_true] at hs2
      refine same_elems _ _ hS ?_ (by simpa using hs1)
      intro k hk
      exact heightOf_some_mem b.sts k b.height (hs2.1.2 k hk)
  · -- every state is at the manifest's height
    intro s hs
    by_cases h0 : b.sts.length = 0
    · have e1 : b.sts = [] := List.eq_nil_of_length_eq_zero h0
      simp [e1] at hs
    · simp only [h0, if_false, Bool.and_eq_true, beq_iff_eq, List.all_eq_true] at hs2
      have hn : (b.sts.map (·.1)).Nodup := (nodupB_iff _).mp hs2.1.1
      have hsub : ∀ k, k ∈ b.stsTree → k ∈ b.sts.map (·.1) := by
        intro k hk
        exact heightOf_some_mem b.sts k b.height (hs2.1.2 k hk)
      have hin : s.1 ∈ b.stsTree :=
        (same_elems _ _ hS hsub (by simpa using hs1) s.1).mpr (List.mem_map.mpr ⟨s, hs, rfl⟩)
      have h1 := hs2.1.2 s.1 hin
      have h2 := heightOf_mem b.sts hn s hs
      rw [h2] at h1
      exact Option.some.inj h1
  · by_cases h0 : b.sts.length = 0
    · have e1 : b.sts = [] := List.eq_nil_of_length_eq_zero h0
      simpa [h0, e1] using hs2
    · have e1 : b.sts ≠ [] := fun e => h0 (by simp [e])
      simp only [h0, if_false, Bool.and_eq_true, beq_iff_eq] at hs2
      simp [e1, hs2.2]

/-- **import_implies_validator.**  An importer that runs the item checks, and the own-validity check of every
operation (of a genesis block too) and state, stores only what the validator accepts. -/
theorem import_implies_validator (c : Checks) (hi : c.importerChecksItems = true)
    (ho : c.importerOpSelf = true) (hg : c.importerGenesisOpSelf = true) (hs : c.importerStateSelf = true) (b : Blk)
    (h : importerAccepts c b = true) : validatorAccepts c b = true := by
  simp only [importerAccepts, iSelf, hi, ho, hg, hs, ite_self, Bool.not_true, Bool.false_or, Bool.and_eq_true, beq_iff_eq] at h
  simp only [validatorAccepts, vSelf, Bool.and_eq_true, Bool.or_eq_true, beq_iff_eq]
  exact ⟨⟨⟨⟨h.1.2.1.1, h.1.2.1.2⟩, h.1.2.2⟩, h.1.1⟩, Or.inr h.2.1, Or.inr h.2.2⟩

/-- the two together: with all three clauses, what the importer stores is consistent with its manifest -/
theorem import_implies_consistent (b : Blk) (hT : b.opsTree.Nodup) (hS : b.stsTree.Nodup)
    (h : importerAccepts fixed b = true) : consistent b :=
  validator_implies_consistent fixed rfl rfl rfl rfl b hT hS (import_implies_validator fixed rfl rfl rfl rfl b h)

/-! ### witnesses: what each clause is needed for -/

def okBlk : Blk :=
  { height := 33, mHash := 7, mProposal := 5, mOpsRoot := some [1, 2], mStsRoot := some [11, 12],
    prHeight := 33, prHash := 5, ops := [2, 1], opsTree := [1, 2], sts := [(11, 33), (12, 33)], stsTree := [11, 12],
    ivpHeight := 33, ivpRound := 0, avpHeight := 33, avpRound := 0, avpMajority := some 7 }

/-- non-vacuity: a block that every gate accepts -/
example : importerAccepts fixed okBlk = true ∧ validatorAccepts fixed okBlk = true ∧
    okBlk.opsTree.Nodup ∧ okBlk.stsTree.Nodup := by decide

/-- the importer of the current tree (no item checks): a block with a foreign states tree is stored
although the validator rejects it -/
theorem importer_gap_witness :
    let c : Checks := { emptyRootChecked := true, majorityChecked := true, importerChecksItems := false }
    let b := { okBlk with stsTree := [21, 22], mStsRoot := some [21, 22] }
    importerAccepts c b = true ∧ validatorAccepts c b = false := by decide

/-- without the majority clause (the code before the repair) voteproofs of another block pass both gates -/
theorem other_block_witness :
    let c : Checks := { emptyRootChecked := true, majorityChecked := false, importerChecksItems := true }
    let b := { okBlk with avpMajority := some 99 }
    importerAccepts c b = true ∧ validatorAccepts c b = true ∧ ¬ consistent b := by
  refine ⟨by decide, by decide, ?_⟩
  intro h
  exact absurd h.2.2.2.2.2.2.2.2.2.2.2.2 (by decide)

/-- without the empty-tree clause (the code before the repair) a block without operations passes under a
manifest that commits to an operations tree -/
theorem empty_tree_witness :
    let c : Checks := { emptyRootChecked := false, majorityChecked := true, importerChecksItems := true }
    let b := { okBlk with ops := [], opsTree := [], mOpsRoot := some [1, 2] }
    validatorAccepts c b = true ∧ ¬ consistent b := by
  refine ⟨by decide, ?_⟩
  intro h
  exact absurd h.2.2.2.2.1 (by decide)

/-- the importer whose genesis path does not run `Operation.IsValid`: a genesis block with an operation whose body
was rewritten under its old hashes is stored although the validator rejects it -/
theorem genesis_operation_witness :
    let c : Checks := { fixed with importerGenesisOpSelf := false }
    let b := { okBlk with height := 0, prHeight := 0, sts := [(11, 0), (12, 0)], ivpHeight := 0, avpHeight := 0, badOps := 1 }
    importerAccepts c b = true ∧ validatorAccepts c b = false ∧
    importerAccepts c { b with height := 33, prHeight := 33, sts := [(11, 33), (12, 33)], ivpHeight := 33, avpHeight := 33 } = false := by
  decide

/-- a validator that runs `State.IsValid` only when it is given a callback accepts a block with a rewritten state -/
theorem state_self_witness :
    let c : Checks := { fixed with validatorStateSelf := false }
    let b := { okBlk with badSts := 1 }
    validatorAccepts c b = true ∧ ¬ consistent b := by
  refine ⟨by decide, ?_⟩
  intro h
  exact absurd h.2.2.2.2.2.2.2.2.2.2.2.2.2.2 (by decide)

/-- the hypothesis on the tree keys is needed: a tree that names one operation twice passes the checks -/
theorem duplicate_tree_key_witness :
    let b := { okBlk with opsTree := [1, 1], mOpsRoot := some [1, 1] }
    validatorAccepts fixed b = true ∧ ¬ consistent b := by
  refine ⟨by decide, ?_⟩
  intro h
  have := (h.2.2.1 2).mpr (by decide)
  exact absurd this (by decide)

/-- the clauses the current source has -/
def current : Checks :=
  { emptyRootChecked := Gen.C16.emptyRootChecked, majorityChecked := Gen.C16.majorityChecked,
    importerChecksItems := Gen.C16.importerChecksItems,
    validatorOpSelf := Gen.C16.validatorOpSelf, validatorStateSelf := Gen.C16.validatorStateSelf,
    importerOpSelf := Gen.C16.importerOpSelf, importerGenesisOpSelf := Gen.C16.importerGenesisOpSelf,
    importerStateSelf := Gen.C16.importerStateSelf }

/-- the repaired clauses and the own-validity checks of both gates are in the source; the importer's item checks
are reported by the harness (known finding while `importerChecksItems = false`) -/
theorem facts_ok : Gen.C16.emptyRootChecked = true ∧ Gen.C16.majorityChecked = true ∧
    Gen.C16.importerChecksVoteproofs = true ∧
    Gen.C16.validatorOpSelf = true ∧ Gen.C16.validatorStateSelf = true ∧ Gen.C16.importerOpSelf = true ∧
    Gen.C16.importerGenesisOpSelf = true ∧ Gen.C16.importerStateSelf = true ∧ Gen.C16.extractErrors = [] := by decide

theorem validator_current_consistent (b : Blk) (hT : b.opsTree.Nodup) (hS : b.stsTree.Nodup)
    (h : validatorAccepts current b = true) : consistent b :=
  validator_implies_consistent current (by decide) (by decide) (by decide) (by decide) b hT hS h

theorem source_pinned : Gen.C16.pins = Pins.C16 := by decide

end Mitum.C16
