import MitumModel.Model.LastPoint
import MitumModel.Gen.C06
import MitumModel.Pins
/-!
C06  Consensus progress is monotonic.
-/
namespace Mitum.C06
open Mitum.LastPoint

/-- ✦ an accepted update never lowers the height. -/
theorem height_monotone (l : LP) (p : Pt) (sc : Bool) (h : before (some l) p sc = true) :
    l.pt.h ≤ p.h := by
  unfold before at h
  simp only at h
  split at h
  · simp at h; omega
  · omega

/-- ✦ ballots and voteproofs for lower heights are always rejected. -/
theorem lower_height_rejected (l : LP) (p : Pt) (maj sc : Bool) (hlow : p.h < l.pt.h) :
    before (some l) p sc = false ∧ isNewVoteproofByPoint (some l) p maj sc = false := by
  have hne : p.h ≠ l.pt.h := by omega
  have hb : before (some l) p sc = false := by
    unfold before; simp only [hne, if_true, ne_eq, not_false_eq_true]; simp; omega
  refine ⟨hb, ?_⟩
  unfold isNewVoteproofByPoint
  rw [hb]
  simp
  intro _ _ h; omega

/-- ✦ within a height the position moves to an earlier round or stage only to take a
    suffrage-confirm result while the current position is not a majority. -/
theorem backward_only_sc (l : LP) (p : Pt) (sc : Bool)
    (h : before (some l) p sc = true) (hb : backward l p = true) :
    sc = true ∧ l.maj = false := by
  obtain ⟨⟨lh, lr, la⟩, lm, ls⟩ := l
  obtain ⟨ph, pr, pa⟩ := p
  simp only [before, backward, beforeSamePoint, beforeNotSamePoint, ptGt, stageN] at *
  by_cases h1 : pr = lr <;> by_cases h2 : ph = lh <;> (try subst h1) <;> (try subst h2) <;>
  cases sc <;> cases lm <;> cases pa <;> cases la <;> (try simp_all) <;> (try omega)

/-- ✦ the current position is never accepted again as it is. -/
theorem irreflexive (l : LP) : before (some l) l.pt l.sc = false := by
  obtain ⟨⟨lh, lr, la⟩, lm, ls⟩ := l
  simp only [before, beforeSamePoint]
  cases ls <;> cases lm <;> simp

/-- ✦ the same stage point is new for a voteproof only as a majority replacing a non-majority
    (or a suffrage-confirm result replacing a non-suffrage-confirm one). -/
theorem same_point_only_majority_upgrade (l : LP) (maj sc : Bool)
    (h : isNewVoteproofByPoint (some l) l.pt maj sc = true) :
    (l.maj = false ∧ maj = true) ∨ (sc = true ∧ l.sc = false) := by
  obtain ⟨⟨lh, lr, la⟩, lm, ls⟩ := l
  simp only [isNewVoteproofByPoint, before, beforeSamePoint] at h
  cases sc <;> cases lm <;> cases ls <;> cases maj <;> simp_all

/-- position measure that strictly grows on every accepted non-backward update:
    `(height, round, stage, suffrage-confirm)` compared lexicographically -/
def posLt (a b : LP) : Prop :=
  a.pt.h < b.pt.h ∨ (a.pt.h = b.pt.h ∧ (a.pt.r < b.pt.r ∨ (a.pt.r = b.pt.r ∧
    (stageN a.pt.acc < stageN b.pt.acc ∨ (a.pt.acc = b.pt.acc ∧ a.sc = false ∧ b.sc = true)))))

theorem posLt_trans (a b c : LP) (h1 : posLt a b) (h2 : posLt b c) : posLt a c := by
  obtain ⟨⟨ah, ar, aa⟩, am, as⟩ := a
  obtain ⟨⟨bh, br, ba⟩, bm, bs⟩ := b
  obtain ⟨⟨ch, cr, ca⟩, cm, cs⟩ := c
  simp only [posLt, stageN] at *
  cases aa <;> cases ba <;> cases ca <;> cases as <;> cases bs <;> cases cs <;>
    (try simp_all) <;> (try omega)

theorem posLt_irrefl (a : LP) : ¬ posLt a a := by
  obtain ⟨⟨ah, ar, aa⟩, am, as⟩ := a
  simp only [posLt]
  cases as <;> simp

/-- every accepted update that is not a backward move strictly advances the position -/
theorem forward_advances (l n : LP) (hsc : n.sc = true → n.pt.acc = false)
    (h : before (some l) n.pt n.sc = true) (hnb : backward l n.pt = false) : posLt l n := by
  obtain ⟨⟨lh, lr, la⟩, lm, ls⟩ := l
  obtain ⟨⟨ph, pr, pa⟩, pm, ps⟩ := n
  simp only [before, backward, beforeSamePoint, beforeNotSamePoint, ptGt, stageN, posLt] at *
  by_cases h1 : pr = lr <;> by_cases h2 : ph = lh <;> (try subst h1) <;> (try subst h2) <;>
  cases ps <;> cases lm <;> cases pa <;> cases la <;> cases ls <;> (try simp_all) <;> (try omega)

/-- all accepted updates of a run are forward moves -/
def NoDetour : Option LP → List LP → Prop
  | _, [] => True
  | l, n :: ns =>
    if before l n.pt n.sc then
      (match l with | none => True | some l' => backward l' n.pt = false) ∧ NoDetour (some n) ns
    else NoDetour l ns

def WellFormed (ns : List LP) : Prop := ∀ n ∈ ns, n.sc = true → n.pt.acc = false

theorem run_sorted (ns : List LP) : ∀ (l : Option LP), WellFormed ns → NoDetour l ns →
    (runUpdates l ns).Pairwise posLt ∧ (∀ l', l = some l' → ∀ x ∈ runUpdates l ns, posLt l' x) := by
  induction ns with
  | nil => intro l _ _; simp [runUpdates]
  | cons n ns ih =>
    intro l hw hnd
    have hw' : WellFormed ns := fun x hx => hw x (List.mem_cons_of_mem _ hx)
    unfold runUpdates
    unfold NoDetour at hnd
    by_cases hb : before l n.pt n.sc = true
    · simp only [hb, if_true] at hnd ⊢
      obtain ⟨hfw, hrest⟩ := hnd
      obtain ⟨ih1, ih2⟩ := ih (some n) hw' hrest
      refine ⟨List.pairwise_cons.mpr ⟨fun x hx => ih2 n rfl x hx, ih1⟩, ?_⟩
      intro l' hl' x hx
      subst hl'
      have hadv : posLt l' n := forward_advances l' n (hw n (by simp)) hb (by simpa using hfw)
      rcases List.mem_cons.mp hx with rfl | hx'
      · exact hadv
      · exact posLt_trans _ _ _ hadv (ih2 n rfl x hx')
    · simp only [hb] at hnd ⊢
      exact ih l hw' hnd

/-- ◐ `no_position_twice_partial`: in every sequence of updates without a suffrage-confirm
    detour (no accepted backward move), the accepted positions are strictly increasing in
    `(height, round, stage, suffrage-confirm)` — hence no position is taken twice. -/
theorem no_position_twice_partial (l : Option LP) (ns : List LP)
    (hw : WellFormed ns) (hnd : NoDetour l ns) :
    (runUpdates l ns).Pairwise (fun a b => (a.pt, a.sc) ≠ (b.pt, b.sc)) := by
  refine List.Pairwise.imp ?_ (run_sorted ns l hw hnd).1
  intro a b hlt heq
  have h1 : a.pt = b.pt := congrArg Prod.fst heq
  have h2 : a.sc = b.sc := congrArg Prod.snd heq
  unfold posLt at hlt
  rw [h1, h2] at hlt
  cases hs : b.sc <;> simp_all

/-- the full statement "the same position is never taken twice" for arbitrary update sequences -/
def no_position_twice_full : Prop :=
  ∀ (l : Option LP) (ns : List LP), WellFormed ns →
    (runUpdates l ns).Pairwise (fun a b => (a.pt, a.sc) ≠ (b.pt, b.sc))

def witnessA : LP := { pt := { h := 5, r := 1, acc := true }, maj := false, sc := false }
def witnessB : LP := { pt := { h := 5, r := 0, acc := false }, maj := true, sc := true }

/-- ✗ refutation (known finding C06:sc-detour-revisits-position): after the draw ACCEPT position
    `A = (5,1,ACCEPT)` a suffrage-confirm majority `B = (5,0,INIT)` is taken, and then `A` is
    accepted again. -/
theorem revisit_witness : ¬ no_position_twice_full := by
  intro h
  have := h none [witnessA, witnessB, witnessA] (by intro n hn; simp [witnessA, witnessB] at hn; rcases hn with rfl | rfl | rfl <;> simp)
  revert this
  decide

/-- ✦ tie to the source -/
theorem source_pinned :
    Gen.C06.extractErrors = [] ∧ Gen.C06.pins = Pins.C06 ∧
    Gen.C06.statesmap = "map[Stage]int{ StageUnknown: 0, StageINIT: 1, StageACCEPT: 3, }" := by
  refine ⟨by decide, by decide, by decide⟩

-- non-vacuity: a forward run satisfying the hypotheses of the partial theorem
example : NoDetour none [witnessA, { pt := { h := 6, r := 0, acc := false }, maj := true, sc := false }] ∧
    WellFormed [witnessA, { pt := { h := 6, r := 0, acc := false }, maj := true, sc := false }] := by
  refine ⟨by simp [NoDetour, before, witnessA, backward], ?_⟩
  intro n hn; simp [witnessA] at hn; rcases hn with rfl | rfl <;> simp
example : before (some witnessA) witnessB.pt witnessB.sc = true ∧ backward witnessA witnessB.pt = true := by decide

end Mitum.C06
