import MitumModel.Model.BallotPool
import MitumModel.Model.OpPool
/-
Model of `isaac.ProposalMaker.Make` / `PreferEmpty` (isaac/proposal_maker.go)
over the proposal pool of `Model/BallotPool.lean`.  Every call runs under the
maker's mutex, so one call is one atomic step.  A newly made proposal gets a
fresh fact id and a fresh proposal id (`NewProposalFact` stamps the current
time, `Sign` stamps `signedAt`: two makes never produce the same object).
The `lastBlockMap` guards (too old / unreachable ⇒ empty proposal) only choose
between `makeNew` and `preferEmpty`; both consult the pool first.
-/
namespace Mitum.ProposalMaker
open Mitum.BallotPool

structure State where
  pool : BallotPool.State
  next : Nat                       -- fresh id supply
  made : List (Nat × List OpPool.Rec)   -- proposal id ↦ operations listed (for the distinctness half)
deriving Repr

def init : State := { pool := BallotPool.init, next := 1, made := [] }

/-- `makeNew` / `preferEmpty`: the pooled proposal for the triple if any, else a new one -/
def make (s : State) (t : Triple) (ops : List OpPool.Rec) : State × Nat :=
  match proposalByPoint s.pool t with
  | some p => (s, p)
  | none =>
    let f := s.next
    let p := s.next
    ({ pool := (setProposal s.pool f t p).1, next := s.next + 1, made := s.made ++ [(p, ops)] }, p)

inductive Op where
  | make (t : Triple) (ops : List OpPool.Rec)        -- Make or PreferEmpty (ops = [] for the latter)
  | foreign (f : Nat) (t : Triple) (p : Nat)          -- SetProposal of some other proposer's proposal
  | makeFail (t : Triple) (ops : List OpPool.Rec)    -- Make or PreferEmpty while the pool's SetProposal fails
deriving Repr

/-- foreign facts/proposals use ids ≥ 1000000 in the driver; in the theorems the only requirement
    is that they are not ids the maker will hand out later (`f ≥ bound`) -/
def step (s : State) : Op → State × Option Nat
  | .make t ops => let r := make s t ops; (r.1, some r.2)
  | .foreign f t p => ({ s with pool := (setProposal s.pool f t p).1 }, none)
  -- the pooled proposal is found before anything is written; otherwise a proposal is made and signed (it takes its
  -- ids), the write fails, and the error is returned instead of the proposal
  | .makeFail t _ =>
    match proposalByPoint s.pool t with
    | some p => (s, some p)
    | none => ({ s with next := s.next + 1 }, none)

/-- the maker that hands the signed proposal out although it could not be stored (`makeProposal` logging the
    `SetProposal` error instead of returning it) -/
def stepLoose (s : State) : Op → State × Option Nat
  | .makeFail t _ =>
    match proposalByPoint s.pool t with
    | some p => (s, some p)
    | none => ({ s with next := s.next + 1 }, some s.next)
  | op => step s op

end Mitum.ProposalMaker
