import MitumModel.Common
/-
Model of the vote-record store of `Ballotbox` (isaac/states/ballotbox.go):
`vrs` (records keyed by stage point, or `"sf-"`+stage point for suffrage-confirm
records), `removed`, the record pool, `newVoterecords`, the part of `vote` that
stores a node's sign fact in the record, and `clean()`.

A stage point is its rank (a natural number, 0 = `ZeroStagePoint`); a record is
identified by a number (its pointer).  `samePrefix` says whether `clean` builds
the key of a suffrage-confirm record with the prefix `newVoterecords` used.
-/
namespace Mitum.BallotStore

abbrev Key := Nat × Bool          -- (stage point, suffrage-confirm)

structure Rec where
  sp : Nat                         -- the record's own stage point (zeroed when put into the pool)
  isSC : Bool
  voted : List Nat                 -- nodes whose sign fact is stored
deriving Repr, DecidableEq

structure Store where
  vrs : List (Key × Nat) := []     -- key ↦ record id
  recs : Nat → Rec := fun _ => { sp := 0, isSC := false, voted := [] }
  removed : List Nat := []
  pool : List Nat := []            -- every put, in order
  last : Nat := 0                  -- last stage point (0 = none)
  next : Nat := 0                  -- next fresh record id

def lookup (vrs : List (Key × Nat)) (k : Key) : Option Nat := (vrs.find? (fun e => e.1 = k)).map (·.2)

def setRec (s : Store) (id : Nat) (r : Rec) : Store := { s with recs := fun j => if j = id then r else s.recs j }

/-- `newVoterecords` + storing the node's sign fact -/
def vote (s : Store) (k : Key) (node : Nat) : Store :=
  match lookup s.vrs k with
  | some id => setRec s id { s.recs id with voted := (s.recs id).voted ++ [node] }
  | none =>
    let id := s.next
    { setRec s id { sp := k.1, isSC := k.2, voted := [node] } with vrs := s.vrs ++ [(k, id)], next := id + 1 }

def setLast (s : Store) (q : Nat) : Store := if s.last < q then { s with last := q } else s

/-- the key `clean` removes for a collected record -/
def cleanKey (samePrefix : Bool) (r : Rec) : Option Key :=
  if r.isSC && !samePrefix then none else some (r.sp, r.isSC)

/-- `clean()` -/
def clean (samePrefix : Bool) (s : Store) : Store :=
  -- 1. the previous `removed` goes into the pool (each record is zeroed)
  let s1 : Store := s.removed.foldl (fun acc id => setRec acc id { (acc.recs id) with sp := 0, voted := [] })
    { s with pool := s.pool ++ s.removed, removed := [] }
  if s1.last = 0 then s1
  else
    -- 2. collect every record below the last point
    let collected := (s1.vrs.filter (fun e => (s1.recs e.2).sp < s1.last)).map (·.2)
    -- 3. remove their keys
    let keys := collected.filterMap (fun id => cleanKey samePrefix (s1.recs id))
    { s1 with vrs := s1.vrs.filter (fun e => !keys.contains e.1), removed := collected }

inductive Op | vote (sp : Nat) (isSC : Bool) (node : Nat) | setLast (q : Nat) | clean
deriving Repr, DecidableEq

def step (samePrefix : Bool) (s : Store) : Op → Store
  | .vote sp isSC node => if sp = 0 then s else vote s (sp, isSC) node
  | .setLast q => setLast s q
  | .clean => clean samePrefix s

def run (samePrefix : Bool) (ops : List Op) : Store := ops.foldl (step samePrefix) {}

/-- the votes recorded for a key -/
def votedAt (s : Store) (k : Key) : List Nat :=
  match lookup s.vrs k with
  | some id => (s.recs id).voted
  | none => []

end Mitum.BallotStore
