import MitumModel.Common
/-
Model of util/fixedtree: index arithmetic (`indexHeight`, `children`, `parent`),
`nodeHash`, `Tree.IsValid`, the writer's hash generation, `ExtractProofMaterial`
and `Proof.Prove` / `filterNodes`.

The model is generic in the hash value type `η` and in the node-hash function
`nh key left? right?` (the code: SHA-256 of `key ‖ leftHash ‖ rightHash`).
The theorems assume `nh` is injective on same-shaped arguments — which is what
an injective hash with fixed-length output gives (lemma `nhInj_of_flat`); the
driver instantiates `η` with the symbolic preimage itself.
-/
namespace Mitum.FixedTree

abbrev Bytes := List Nat

/-- `indexHeight` (the code uses `math.Log`; tied to this by exhaustive correspondence) -/
def indexHeight (i : Nat) : Nat := Nat.log2 (i + 1)

/-- `children(size, index)` as the code computes it: from the height and the position in the level -/
def childrenCode (size i : Nat) : Option (Nat × Nat) :=
  let h := indexHeight i
  let currentFirst := 2 ^ h - 1
  let pos := i - currentFirst
  let nextFirst := 2 ^ (h + 1) - 1
  if size ≤ nextFirst + pos * 2 then none else some (nextFirst + pos * 2, nextFirst + pos * 2 + 1)

/-- `parent(index)` as the code computes it -/
def parentCode (i : Nat) : Option Nat :=
  let h := indexHeight i
  if h = 0 then none
  else
    let currentFirst := 2 ^ h - 1
    let pos := i - currentFirst
    let pos' := if pos % 2 = 1 then pos - 1 else pos
    let upFirst := 2 ^ (h - 1) - 1
    some (upFirst + pos' / 2)

structure Node (η : Type) where
  key : Bytes
  hash : η
deriving Repr, DecidableEq

section
variable {η : Type} [DecidableEq η] (nh : Bytes → Option η → Option η → η)

def childHash (t : List (Node η)) (i : Nat) : Option η := (t[i]?).map (·.hash)

/-- one node of `Tree.IsValid`: non-empty key and hash = nodeHash(self, children) -/
def nodeOK (t : List (Node η)) (i : Nat) (n : Node η) : Bool :=
  !(n.key = []) && decide (n.hash = nh n.key (childHash t (2 * i + 1)) (childHash t (2 * i + 2)))

def validFrom (t : List (Node η)) : Nat → List (Node η) → Bool
  | _, [] => true
  | i, n :: rest => nodeOK nh t i n && validFrom t (i + 1) rest

/-- `Tree.IsValid` (node part) -/
def isValid (t : List (Node η)) : Bool := validFrom nh t 0 t

/-- hash of node `i` of the tree generated from `keys` (fuel ≥ depth of the subtree) -/
def hashAt (keys : List Bytes) : Nat → Nat → Option η
  | 0, _ => none
  | fuel + 1, i =>
    match keys[i]? with
    | none => none
    | some k => some (nh k (hashAt keys fuel (2 * i + 1)) (hashAt keys fuel (2 * i + 2)))

/-- the writer: `generateNodesHash` over the added keys -/
def generate (keys : List Bytes) : List (Node η) :=
  (List.range keys.length).filterMap (fun i =>
    match keys[i]?, hashAt nh keys (keys.length + 1) i with
    | some k, some h => some { key := k, hash := h }
    | _, _ => none)

/-! ### proofs: entries are `none` for `EmptyBaseNode()` (and Go `nil`) -/

abbrev PEntry (η : Type) := Option (Node η)

/-- the walk of `ExtractProofMaterial` from node `l` up to the root (fuel = height + 1) -/
def extractWalk (t : List (Node η)) (index : Nat) : Nat → Nat → Option (List (PEntry η))
  | 0, _ => none
  | fuel + 1, l =>
    let pair : Option (List (PEntry η)) :=
      if 2 * l + 1 < t.length then some [t[2 * l + 1]?, t[2 * l + 2]?]
      else if l = index then some [none, none] else none
    match pair with
    | none => none
    | some p =>
      if l = 0 then (t[0]?).map (fun r => p ++ [some r])
      else (extractWalk t index fuel ((l - 1) / 2)).map (fun rest => p ++ rest)

/-- `ExtractProofMaterial(nodes, key)` -/
def extract (t : List (Node η)) (key : Bytes) : Option (List (PEntry η)) :=
  match t.findIdx? (fun n => decide (n.key = key)) with
  | none => none
  | some index => extractWalk t index (indexHeight index + 1) index

/-- does this proof entry carry the key -/
def isKey (key : Bytes) (e : PEntry η) : Bool :=
  match e with | some n => decide (n.key = key) | none => false

/-- `Proof.filterNodes(key)` -/
def filterNodes (p : List (PEntry η)) (key : Bytes) : List (PEntry η) :=
  match p.findIdx? (isKey key) with
  | none => []
  | some i =>
    if i % 2 = 0 then
      (if 1 < i then (p.drop (i - 2)).take 2 else [none, none]) ++ p.drop i
    else if i + 1 = p.length then
      (if 1 < i then (p.drop (i - 2)).take 2 else [none, none]) ++ [p[i]?.getD none]
    else
      (if 1 < i then (p.drop (i - 3)).take 2 else [none, none]) ++ p.drop (i - 1)

def entryHash (e : PEntry η) : Option η := e.map (·.hash)

/-- one level of `Proof.Prove`: some non-empty parent's hash is nodeHash(parent, pair) -/
def levelOK (pair0 pair1 : PEntry η) (parents : List (PEntry η)) : Bool :=
  parents.any (fun p =>
    match p with
    | none => false
    | some n => !(n.key = []) && decide (n.hash = nh n.key (entryHash pair0) (entryHash pair1)))

def proveLoop (nodes : List (PEntry η)) : Nat → Nat → Bool
  | 0, _ => true
  | cnt + 1, i =>
    let bi := 2 * i
    let parents := if 2 * i + 4 < nodes.length then (nodes.drop (bi + 2)).take 2 else (nodes.drop (bi + 2)).take 1
    levelOK nh (nodes[bi]?.getD none) (nodes[bi + 1]?.getD none) parents && proveLoop nodes cnt (i + 1)

/-- `Proof.Prove(key)` -/
def prove (p : List (PEntry η)) (key : Bytes) : Bool :=
  let nodes := filterNodes p key
  if nodes.length < 1 then false
  else proveLoop nh nodes ((nodes.length - 1) / 2) 0

end

/-- the symbolic hash used by the driver: a hash value *is* its preimage -/
inductive SHash where
  | leaf (key : Bytes)
  | left (key : Bytes) (l : SHash)
  | both (key : Bytes) (l r : SHash)
  | right (key : Bytes) (r : SHash)
  | garbage (id : Nat)
deriving Repr, DecidableEq

def snh (key : Bytes) (l r : Option SHash) : SHash :=
  match l, r with
  | none, none => .leaf key
  | some a, none => .left key a
  | some a, some b => .both key a b
  | none, some b => .right key b

end Mitum.FixedTree
