import MitumModel.Common
import MitumModel.Model.LastPoint
import MitumModel.Model.LastVoteproofs
namespace Mitum.Driver
open Mitum Mitum.LastPoint

/-- `z` or `h,r,acc,maj,sc` -/
def parseLP (s : String) : Option (Option LP) :=
  if s = "z" then some none
  else match (s.splitOn ",").mapM String.toNat? with
    | some [h, r, a, m, sc] => some (some { pt := { h := h, r := r, acc := a == 1 }, maj := m == 1, sc := sc == 1 })
    | _ => none

namespace LvhDrv
open Mitum.LastVPs

/-- the handler with its cache of earlier pairs (keyed by stage point; never more than 8 entries here) -/
structure St where
  h : H
  cache : List (Pt × H)

def lookup (cache : List (Pt × H)) (pt : Pt) : H :=
  match cache.find? (fun e => e.1 == pt) with
  | some e => e.2
  | none => { ivp := none, avp := none }

def put (cache : List (Pt × H)) (pt : Pt) (v : H) : List (Pt × H) := (pt, v) :: cache.filter (fun e => !(e.1 == pt))

/-- `Set(vp)`: returns the new state and what `IsNew` said just before -/
def step (st : St) (vp : LP) : St × Bool :=
  if isNew st.h vp then
    let cache := if (cap st.h).isSome then put st.cache vp.pt st.h else st.cache
    ({ h := (setVP false false st.h vp).1, cache := cache }, true)
  else
    match cap st.h with
    | none => (st, false)
    | some l =>
      let cached := lookup st.cache l.pt
      let ci := cached.ivp.isSome
      let ca := cached.avp.isSome
      let fi := !ci && l.pt.acc && !vp.pt.acc && decide (l.pt.h = vp.pt.h ∧ l.pt.r = vp.pt.r)
      let fa := !ca && !l.pt.acc && vp.pt.acc && decide (l.pt.h = vp.pt.h + 1)
      let cache := if fi || fa then
          put st.cache l.pt { ivp := if fi then some vp else cached.ivp, avp := if fa then some vp else cached.avp }
        else st.cache
      ({ h := fill ci ca st.h vp, cache := cache }, false)

def lpStr (l : Option LP) : String :=
  match l with
  | none => "z"
  | some l => s!"{l.pt.h},{l.pt.r},{if l.pt.acc then 1 else 0},{if l.maj then 1 else 0},{if l.sc then 1 else 0}"

end LvhDrv

def stepC06 (ts : List String) : String :=
  match ts with
  | ["before", l, p] =>
    match parseLP l, parseLP p with
    | some l, some (some p) => boolStr (before l p.pt p.sc)
    | _, _ => "bad-op"
  | ["isnew", l, p] =>
    match parseLP l, parseLP p with
    | some l, some (some p) => boolStr (isNewVoteproofByPoint l p.pt p.maj p.sc)
    | _, _ => "bad-op"
  | "seq" :: ns =>
    match ns.mapM parseLP with
    | some ns =>
      let step := fun (acc : Option LP × String) (n : Option LP) =>
        match n with
        | none => acc
        | some n => let r := setLastPoint acc.1 n; (r.1, acc.2 ++ boolStr r.2)
      (ns.foldl step (none, "")).2
    | none => "bad-op"
  | "lvh" :: ns =>
    -- `lvh <position>…`: what `IsNew` answers before each `Set`, and the reference (`Cap`) at the end
    match ns.mapM parseLP with
    | some ns =>
      let r := ns.foldl (fun (acc : LvhDrv.St × String) (n : Option LP) =>
        match n with
        | none => acc
        | some n => let x := LvhDrv.step acc.1 n; (x.1, acc.2 ++ boolStr x.2)) ({ h := { ivp := none, avp := none }, cache := [] }, "")
      s!"{r.2} cap={LvhDrv.lpStr (LastVPs.cap r.1.h)}"
    | none => "bad-op"
  | _ => "bad-op"

end Mitum.Driver
