import MitumModel.Model.Members
import MitumModel.Gen.C37
import MitumModel.Pins
/-!
C37  Memberlist member table stays consistent.
-/
namespace Mitum.C37
open Mitum.Members

/-- the abstract table: which addresses are present (joined and not left), and for which node -/
def spec : List Op → Nat → Option Nat
  | [], _ => none
  | op :: rest, a =>
    -- ops are applied oldest first; define on the reversed list for easy induction
    match op with
    | .set a' n => if a = a' then some n else spec rest a
    | .remove a' => if a = a' then none else spec rest a

structure Inv (s : State) : Prop where
  nodes_iff : ∀ n a, a ∈ s.nodes n ↔ s.addrs a = some n
  nodes_nodup : ∀ n, (s.nodes n).Nodup
  keys_iff : ∀ a, a ∈ s.keys ↔ (s.addrs a).isSome = true
  keys_nodup : s.keys.Nodup

theorem inv_init : Inv init := by
  constructor <;> simp [init]

theorem mem_upd_nodes (f : Nat → List Nat) (k : Nat) (v : List Nat) (m x : Nat) :
    x ∈ upd f k v m ↔ (m = k ∧ x ∈ v) ∨ (m ≠ k ∧ x ∈ f m) := by
  unfold upd; by_cases h : m = k <;> simp [h]

theorem inv_set (s : State) (a n : Nat) (h : Inv s) : Inv (join s a n).1 := by
  obtain ⟨h1, h2, h3, h4⟩ := h
  cases ha : s.addrs a with
  | none =>
    have hnot : ∀ m, a ∉ s.nodes m := fun m hm => by have := (h1 m a).mp hm; rw [ha] at this; cases this
    constructor
    · intro m x
      simp only [join, ha, mem_upd_nodes, List.mem_append, List.mem_singleton, upd]
      by_cases hx : x = a
      · subst hx
        by_cases hm : m = n
        · subst hm; simp
        · simp [hm, hnot m]; exact fun h => hm h.symm
      · simp only [hx, if_false, or_false]
        rw [← h1 m x]
        by_cases hm : m = n
        · subst hm; simp [hx]
        · simp [hm]
    · intro m
      simp only [join, ha, upd]
      by_cases hm : m = n
      · subst hm; simp only [if_true]
        rw [List.nodup_append]
        exact ⟨h2 m, by simp, by intro x hx y hy; simp at hy; subst hy; intro he; subst he; exact hnot m hx⟩
      · simp [hm, h2 m]
    · intro x
      have hk : a ∉ s.keys := fun hk => by have := (h3 a).mp hk; rw [ha] at this; cases this
      simp only [join, hk, if_false, List.mem_append, List.mem_singleton, upd]
      by_cases hx : x = a
      · subst hx; simp
      · simp [hx, h3 x]
    · have hk : a ∉ s.keys := fun hk => by have := (h3 a).mp hk; rw [ha] at this; cases this
      simp only [join, hk, if_false]
      rw [List.nodup_append]
      exact ⟨h4, by simp, by intro x hx y hy; simp at hy; subst hy; intro he; subst he; exact hk hx⟩
  | some n0 =>
    -- the address was present for node n0: it is first dropped from n0's list
    have hin : a ∈ s.nodes n0 := (h1 n0 a).mpr ha
    have hmem1 : ∀ m x, x ∈ removeFromNode s.nodes n0 a m ↔ (x ∈ s.nodes m ∧ ¬ (m = n0 ∧ x = a)) := by
      intro m x
      unfold removeFromNode
      rw [mem_upd_nodes]
      simp only [List.mem_filter, Bool.not_eq_true', decide_eq_false_iff_not]
      by_cases hm : m = n0
      · subst hm; simp
      · simp [hm]
    have hnot1 : ∀ m, a ∉ removeFromNode s.nodes n0 a m := by
      intro m hm
      have := (hmem1 m a).mp hm
      have hmn : m = n0 := by
        have h' := (h1 m a).mp this.1; rw [ha] at h'; injection h' with h'; exact h'.symm
      exact this.2 ⟨hmn, rfl⟩
    have hnd1 : ∀ m, (removeFromNode s.nodes n0 a m).Nodup := by
      intro m
      unfold removeFromNode upd
      by_cases hm : m = n0
      · simp only [hm, if_true]; exact (List.filter_sublist).nodup (h2 n0)
      · simp only [hm, if_false]; exact h2 m
    constructor
    · intro m x
      simp only [join, ha, mem_upd_nodes, List.mem_append, List.mem_singleton, upd]
      by_cases hx : x = a
      · subst hx
        by_cases hm : m = n
        · subst hm; simp
        · simp [hm, hnot1 m]; exact fun h => hm h.symm
      · simp only [hx, if_false, or_false]
        rw [← h1 m x]
        have := hmem1 m x
        by_cases hm : m = n
        · subst hm; simp [this, hx]
        · simp [hm, this, hx]
    · intro m
      simp only [join, ha, upd]
      by_cases hm : m = n
      · subst hm; simp only [if_true]
        rw [List.nodup_append]
        exact ⟨hnd1 m, by simp, by intro x hx y hy; simp at hy; subst hy; intro he; subst he; exact hnot1 m hx⟩
      · simp [hm, hnd1 m]
    · intro x
      have hk : a ∈ s.keys := (h3 a).mpr (by rw [ha]; rfl)
      simp only [join, hk, if_true, upd]
      by_cases hx : x = a
      · subst hx; simp [hk]
      · simp [hx, h3 x]
    · have hk : a ∈ s.keys := (h3 a).mpr (by rw [ha]; rfl)
      simp only [join, hk, if_true]; exact h4

theorem inv_remove (s : State) (a : Nat) (h : Inv s) : Inv (leave s a).1 := by
  obtain ⟨h1, h2, h3, h4⟩ := h
  cases ha : s.addrs a with
  | none => simp only [leave, ha]; exact ⟨h1, h2, h3, h4⟩
  | some n0 =>
    constructor
    · intro m x
      simp only [leave, ha, removeFromNode, mem_upd_nodes, List.mem_filter, Bool.not_eq_true',
        decide_eq_false_iff_not, upd]
      by_cases hx : x = a
      · subst hx
        by_cases hm : m = n0
        · simp [hm]
        · simp only [hm, false_and, ne_eq, not_false_eq_true, true_and, false_or, if_true]
          constructor
          · intro hmem; have := (h1 m x).mp hmem; rw [ha] at this; injection this with this; exact absurd this.symm hm
          · intro h; cases h
      · simp only [hx, if_false]
        rw [← h1 m x]
        by_cases hm : m = n0
        · subst hm; simp [hx]
        · simp [hm]
    · intro m
      simp only [leave, ha, removeFromNode, upd]
      by_cases hm : m = n0
      · simp only [hm, if_true]; exact (List.filter_sublist).nodup (h2 n0)
      · simp only [hm, if_false]; exact h2 m
    · intro x
      simp only [leave, ha, List.mem_filter, Bool.not_eq_true', decide_eq_false_iff_not, upd]
      by_cases hx : x = a
      · subst hx; simp
      · simp [hx, h3 x]
    · simp only [leave, ha]; exact (List.filter_sublist).nodup h4

/-- ✦ the invariant holds after every join / re-join / leave history. -/
theorem inv_reach (ops : List Op) : Inv (ops.foldl step init) := by
  have : ∀ (ops : List Op) (s : State), Inv s → Inv (ops.foldl step s) := by
    intro ops
    induction ops with
    | nil => intro s hs; exact hs
    | cons op rest ih =>
      intro s hs
      apply ih
      cases op with
      | set a n => exact inv_set s a n hs
      | remove a => exact inv_remove s a hs
  exact this ops init inv_init

/-- the table's `addrs` map is the abstract table of the history (latest join not yet left) -/
theorem addrs_eq_spec (ops : List Op) (a : Nat) : (ops.foldl step init).addrs a = spec ops.reverse a := by
  have : ∀ (ops : List Op) (s : State) (pre : List Op), (∀ a, s.addrs a = spec pre a) →
      ∀ a, (ops.foldl step s).addrs a = spec (ops.reverse ++ pre) a := by
    intro ops
    induction ops with
    | nil => intro s pre h a; simpa using h a
    | cons op rest ih =>
      intro s pre h a
      simp only [List.foldl_cons, List.reverse_cons, List.append_assoc, List.singleton_append]
      apply ih
      intro x
      cases op with
      | set a' n =>
        simp only [step, join, upd, spec]
        by_cases hx : x = a' <;> simp [hx, h x]
      | remove a' =>
        simp only [step, leave, spec]
        cases ha : s.addrs a' with
        | none =>
          by_cases hx : x = a'
          · subst hx; simp [← h x, ha]
          · simp [hx, h x]
        | some n0 =>
          simp only [upd]
          by_cases hx : x = a' <;> simp [hx, h x]
  have := this ops init [] (by intro a; rfl) a
  simpa using this

/-- ✦ a member is reported present exactly when it has been joined and not yet left. -/
theorem present_iff_joined_not_left (ops : List Op) (a : Nat) :
    exists_ (ops.foldl step init) a = (spec ops.reverse a).isSome := by
  unfold exists_; rw [addrs_eq_spec]

/-- ✦ lookup by address reports found exactly for present members (needs the regenerated fact
    that the found branch of `Get` returns `true`). -/
theorem get_found_iff_present (s : State) (a : Nat) :
    (lookupMember true s a).2 = exists_ s a ∧ (lookupMember true s a).1 = s.addrs a := by
  unfold lookupMember exists_
  cases s.addrs a <;> simp

/-- ✦ the per-node member lists contain exactly the present members of that node, without
    duplicates, after every history; `MembersLen` counts them. -/
theorem per_node_list_exact (ops : List Op) (n : Nat) :
    let s := ops.foldl step init
    (s.nodes n).Nodup ∧ (∀ a, a ∈ s.nodes n ↔ spec ops.reverse a = some n) ∧
    membersLen s n = (s.nodes n).length := by
  have h := inv_reach ops
  refine ⟨h.nodes_nodup n, ?_, rfl⟩
  intro a
  rw [← addrs_eq_spec]
  exact h.nodes_iff n a

/-- ✗ the found flag of the unrepaired `Get` -/
theorem get_found_witness : (lookupMember false (join init 1 7).1 1) = (some 7, false) := by
  simp [lookupMember, join, init, upd]

/-- ✦ facts of the current source -/
theorem facts_ok : Gen.C37.extractErrors = [] ∧ Gen.C37.getReturnsFound = true ∧ Gen.C37.pins = Pins.C37 := by
  refine ⟨by decide, by decide, by decide⟩

example : membersLen (([Op.set 1 7, Op.set 2 7, Op.set 1 7, Op.remove 2] : List Op).foldl step init) 7 = 1 := by
  simp [membersLen, step, join, leave, init, upd, removeFromNode]

end Mitum.C37
