package main

import (
	"go/ast"
	"strings"
)

func init() { register("C35", genC35) }

// C35: numeric constants and reserved names of launch/acl.go, and the order
// of the guards in ACL.Allow (as the condition texts of its if statements).
func genC35(o *Out) {
	f, err := load("launch/acl.go")
	if err != nil {
		o.errf("launch/acl.go: %v", err)
		return
	}
	o.constNat(f, "aclPermProhibit", "prohibit")
	o.constNat(f, "aclPermSuper", "super")
	o.constNat(f, "ReadAllowACLPerm", "readAllow")
	o.constNat(f, "WriteAllowACLPerm", "writeAllow")
	o.constStr(f, "defaultACLScope", "defaultScope")
	o.constStr(f, "defaultACLUser", "defaultUser")
	var conds []string
	if fd := f.Func("ACL", "Allow"); fd != nil {
		for _, st := range fd.Body.List {
			if is, ok := st.(*ast.IfStmt); ok {
				conds = append(conds, strings.Join(strings.Fields(f.Src(is.Cond)), " "))
			}
		}
	} else {
		o.errf("launch/acl.go: ACL.Allow not found")
	}
	o.strList("allowGuards", conds)
}
