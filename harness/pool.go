package main

import (
	"context"
	"fmt"
	"sort"
	"strings"

	"github.com/spikeekips/mitum/base"
	"github.com/spikeekips/mitum/isaac"
	isaacdatabase "github.com/spikeekips/mitum/isaac/database"
	"github.com/spikeekips/mitum/launch"
	leveldbstorage "github.com/spikeekips/mitum/storage/leveldb"
	"github.com/spikeekips/mitum/util"
	"github.com/spikeekips/mitum/util/encoder"
	jsonenc "github.com/spikeekips/mitum/util/encoder/json"
)

// shared environment for the pool properties (C22, C23, C24, C38)
type poolEnv struct {
	encs *encoder.Encoders
	enc  *jsonenc.Encoder
}

func newPoolEnv() (*poolEnv, error) {
	enc := jsonenc.NewEncoder()
	encs := encoder.NewEncoders(enc, enc)
	if err := launch.LoadHinters(encs); err != nil {
		return nil, err
	}
	for _, d := range []encoder.DecodeDetail{
		{Hint: isaac.DummyOperationFactHint, Instance: isaac.DummyOperationFact{}},
		{Hint: isaac.DummyOperationHint, Instance: isaac.DummyOperation{}},
		{Hint: base.DummyNodeHint, Instance: base.BaseNode{}},
	} {
		if err := encs.AddDetail(d); err != nil {
			return nil, err
		}
	}
	return &poolEnv{encs: encs, enc: enc}, nil
}

func (e *poolEnv) newPool() (*isaacdatabase.TempPool, error) {
	return isaacdatabase.NewTempPool(leveldbstorage.NewMemStorage(), e.encs, e.enc, 0)
}

func init() {
	register("C22", runC22)
	register("C23", runC23)
}

// ---------------------------------------------------------------- C22

func runC22(c *Ctx) error {
	env, err := newPoolEnv()
	if err != nil {
		return err
	}
	networkID := base.NetworkID("c22")
	privs := []base.Privatekey{base.NewMPrivatekey(), base.NewMPrivatekey(), base.NewMPrivatekey()}
	nhist := 400
	if c.Thorough() {
		nhist = 12000
	}
	ctx := context.Background()
	for hi := 0; hi < nhist; hi++ {
		pool, err := env.newPool()
		if err != nil {
			return err
		}
		nfacts := 1 + c.Intn(5)
		facts := make([]isaac.DummyOperationFact, nfacts)
		for i := range facts {
			facts[i] = isaac.NewDummyOperationFact(util.UUID().Bytes(), util.BytesToByter(c.Bytes(4)))
		}
		type opinfo struct {
			op   isaac.DummyOperation
			id   int
			fact int
		}
		var ops []opinfo
		idOf := map[string]int{}
		factOf := map[string]int{}
		for i := range facts {
			factOf[facts[i].Hash().String()] = i + 1
		}
		var toks, outs []string
		nsteps := 3 + c.Intn(14)
		handedOut := map[int]bool{} // ops removed as filtered out / replaced duplicates
		for st := 0; st < nsteps; st++ {
			switch k := c.Intn(10); {
			case k < 6 || len(ops) == 0: // SetOperation (new op, often an already used fact re-signed)
				fi := c.Intn(nfacts)
				var oi opinfo
				if len(ops) > 0 && c.Chance(1, 6) { // resubmit an existing operation
					oi = ops[c.Intn(len(ops))]
				} else {
					op, err := isaac.NewDummyOperation(facts[fi], privs[c.Intn(len(privs))], networkID)
					if err != nil {
						return err
					}
					oi = opinfo{op: op, id: len(ops) + 1, fact: fi + 1}
					ops = append(ops, oi)
					idOf[op.Hash().String()] = oi.id
				}
				ok, err := pool.SetOperation(ctx, oi.op)
				if err != nil {
					return err
				}
				toks = append(toks, fmt.Sprintf("s:%d:%d", oi.id, oi.fact))
				outs = append(outs, b01(ok))
			default: // OperationHashes
				limit := uint64(1 + c.Intn(6))
				m, r := 0, 0
				if c.Chance(1, 2) {
					m = 2 + c.Intn(2)
					r = c.Intn(m)
				}
				var filter func(isaac.PoolOperationRecordMeta) (bool, error)
				if m > 0 {
					filter = func(meta isaac.PoolOperationRecordMeta) (bool, error) {
						return factOf[meta.Fact().String()]%m != r, nil
					}
				}
				var res [][2]util.Hash
				var herr error
				if p := c29safe(func() { res, herr = pool.OperationHashes(ctx, base.Height(33), limit, filter) }); p != "" {
					c.Violation("C22:panic", "OperationHashes panicked: "+p, map[string]interface{}{"history": append(toks, fmt.Sprintf("h:%d:%d:%d", limit, m, r))})
					toks = append(toks, fmt.Sprintf("h:%d:%d:%d", limit, m, r))
					outs = append(outs, "panic")
					st = nsteps
					continue
				}
				if herr != nil {
					return herr
				}
				var ids []string
				seenF := map[int]bool{}
				seenO := map[int]bool{}
				hist := append(append([]string{}, toks...), fmt.Sprintf("h:%d:%d:%d", limit, m, r))
				for _, e := range res {
					id := idOf[e[0].String()]
					f := factOf[e[1].String()]
					ids = append(ids, fmt.Sprint(id))
					in := map[string]interface{}{"history": hist, "result": ids}
					if seenF[f] {
						c.Violation("C22:duplicate-fact", fmt.Sprintf("history %s returns two operations of fact %d", strings.Join(hist, " "), f), in)
					}
					if seenO[id] {
						c.Violation("C22:duplicate-operation", fmt.Sprintf("history %s returns operation %d twice", strings.Join(hist, " "), id), in)
					}
					seenF[f], seenO[id] = true, true
					if m > 0 && f%m == r {
						c.Violation("C22:filtered-returned", fmt.Sprintf("history %s returns filtered-out operation %d", strings.Join(hist, " "), id), in)
					}
					if handedOut[id] {
						c.Violation("C22:removed-returned-again", fmt.Sprintf("history %s returns operation %d that an earlier call removed", strings.Join(hist, " "), id), in)
					}
					if id == 0 || ops[id-1].fact != f {
						c.Violation("C22:not-stored", fmt.Sprintf("history %s returns an entry that was never stored", strings.Join(hist, " ")), in)
					}
				}
				if uint64(len(res)) > limit {
					c.Violation("C22:over-limit", strings.Join(hist, " "), map[string]interface{}{"history": hist})
				}
				toks = hist
				outs = append(outs, "["+strings.Join(ids, ",")+"]")
				// bookkeeping for "removed not returned again": filtered-out ops seen by this call are gone.
				// (which ones were scanned depends on the limit; the model says exactly which — the
				// oracle here only tracks the certain ones: filtered-out ops when the result is short)
				if m > 0 && uint64(len(res)) < limit {
					for _, oi := range ops {
						if oi.fact%m == r {
							handedOut[oi.id] = true
						}
					}
				}
			}
		}
		_ = pool.Close()
		c.Case("seq "+strings.Join(toks, " "), strings.Join(outs, " "))
		nh, dup := 0, false
		seen := map[string]bool{}
		for _, t := range toks {
			if strings.HasPrefix(t, "h:") {
				nh++
			}
			if strings.HasPrefix(t, "s:") {
				f := t[strings.LastIndex(t, ":"):]
				if seen[f] {
					dup = true
				}
				seen[f] = true
			}
		}
		if nh >= 1 && dup {
			c.Nontrivial(strings.Join(toks, " "))
		}
		c.Count("hashes-calls-per-history", fmt.Sprint(nh))
		if hi%100 == 0 {
			c.Sample(map[string]string{"history": strings.Join(toks, " "), "results": strings.Join(outs, " ")})
		}
	}
	return nil
}

// ---------------------------------------------------------------- C23

func runC23(c *Ctx) error {
	env, err := newPoolEnv()
	if err != nil {
		return err
	}
	networkID := base.NetworkID("c23")
	nodes := []base.LocalNode{base.RandomLocalNode(), base.RandomLocalNode(), base.RandomLocalNode()}
	signer := base.RandomLocalNode()
	nhist := 300
	if c.Thorough() {
		nhist = 10000
	}
	type rng struct {
		node, start, end int
		hash             uint64
		op               base.SuffrageExpelOperation
	}
	for hi := 0; hi < nhist; hi++ {
		pool, err := env.newPool()
		if err != nil {
			return err
		}
		var toks, outs []string
		store := map[string]rng{} // key end/hash
		nsteps := 4 + c.Intn(14)
		maxh := 12
		for st := 0; st < nsteps; st++ {
			switch k := c.Intn(10); {
			case k < 5 || len(store) == 0:
				ni := c.Intn(len(nodes))
				s := c.Intn(maxh)
				e := s + c.Intn(maxh-s+1)
				fact := isaac.NewSuffrageExpelFact(nodes[ni].Address(), base.Height(s), base.Height(e), "c23")
				op := isaac.NewSuffrageExpelOperation(fact)
				if err := op.NodeSign(signer.Privatekey(), networkID, signer.Address()); err != nil {
					return err
				}
				if err := pool.SetSuffrageExpelOperation(op); err != nil {
					return err
				}
				hb := fact.Hash().Bytes()
				var hv uint64
				for i := 0; i < 7; i++ {
					hv = hv<<8 | uint64(hb[i])
				}
				store[fmt.Sprintf("%d/%d", e, hv)] = rng{ni + 1, s, e, hv, op}
				toks = append(toks, fmt.Sprintf("p:%d:%d:%d:%d", ni+1, s, e, hv))
				outs = append(outs, "ok")
			case k < 7: // traverse
				h := c.Intn(maxh + 2)
				var visited []string
				vset := map[string]bool{}
				if err := pool.TraverseSuffrageExpelOperations(context.Background(), base.Height(h), func(op base.SuffrageExpelOperation) (bool, error) {
					f := op.ExpelFact()
					ni := 0
					for i := range nodes {
						if nodes[i].Address().Equal(f.Node()) {
							ni = i + 1
						}
					}
					id := fmt.Sprintf("%d.%d.%d", ni, f.ExpelStart(), f.ExpelEnd())
					visited = append(visited, id)
					vset[id] = true
					return true, nil
				}); err != nil {
					return err
				}
				toks = append(toks, fmt.Sprintf("t:%d", h))
				outs = append(outs, "["+strings.Join(visited, ",")+"]")
				// oracle: exactly the covering ranges
				var want []string
				for _, r := range store {
					if r.start <= h && h <= r.end {
						want = append(want, fmt.Sprintf("%d.%d.%d", r.node, r.start, r.end))
					}
				}
				got := append([]string{}, visited...)
				sort.Strings(want)
				sort.Strings(got)
				if strings.Join(want, ",") != strings.Join(got, ",") {
					c.Violation("C23:traverse-wrong-set", fmt.Sprintf("history %s: at height %d visited %v, covering %v", strings.Join(toks, " "), h, got, want),
						map[string]interface{}{"history": toks})
				}
			case k < 9: // lookup by node
				h := c.Intn(maxh + 2)
				ni := c.Intn(len(nodes))
				op, found, err := pool.SuffrageExpelOperation(base.Height(h), nodes[ni].Address())
				if err != nil {
					return err
				}
				toks = append(toks, fmt.Sprintf("l:%d:%d", h, ni+1))
				res := "none"
				if found {
					f := op.ExpelFact()
					res = fmt.Sprintf("%d.%d.%d", ni+1, f.ExpelStart(), f.ExpelEnd())
					if !(int(f.ExpelStart()) <= h && h <= int(f.ExpelEnd())) || !f.Node().Equal(nodes[ni].Address()) {
						c.Violation("C23:lookup-wrong-operation", fmt.Sprintf("history %s: lookup(%d,node %d) returned %s", strings.Join(toks, " "), h, ni+1, res), map[string]interface{}{"history": toks})
					}
				}
				exists := false
				for _, r := range store {
					if r.node == ni+1 && r.start <= h && h <= r.end {
						exists = true
					}
				}
				if exists != found {
					c.Violation("C23:lookup-missed", fmt.Sprintf("history %s: lookup(%d,node %d) found=%v but covering operation exists=%v", strings.Join(toks, " "), h, ni+1, found, exists),
						map[string]interface{}{"history": toks})
				}
				outs = append(outs, res)
			default: // remove by height
				h := c.Intn(maxh)
				if err := pool.RemoveSuffrageExpelOperationsByHeight(base.Height(h)); err != nil {
					return err
				}
				for k, r := range store {
					if r.end <= h {
						delete(store, k)
					}
				}
				toks = append(toks, fmt.Sprintf("r:%d", h))
				outs = append(outs, "ok")
			}
		}
		_ = pool.Close()
		c.Case("seq "+strings.Join(toks, " "), strings.Join(outs, " "))
		if len(store) >= 2 {
			c.Nontrivial(strings.Join(toks, " "))
		}
		c.Count("stored-at-end", fmt.Sprint(len(store)))
		if hi%100 == 0 {
			c.Sample(map[string]string{"history": strings.Join(toks, " "), "results": strings.Join(outs, " ")})
		}
	}
	return nil
}
