import MitumModel.Model.Vote
import MitumModel.Lemmas.Sort
import MitumModel.Props.C02
import MitumModel.Gen.C01
import MitumModel.Pins
/-!
C01  Vote tally decides majority, draw and not-yet correctly.
-/
namespace Mitum.C01
open Mitum Mitum.Vote

/-! ### helper lemmas about lists -/

theorem count_add_count_le (f g : String) (hfg : f ≠ g) (l : List String) :
    l.count f + l.count g ≤ l.length := by
  induction l with
  | nil => simp
  | cons x xs ih =>
    simp only [List.count_cons, List.length_cons]
    by_cases h1 : x = f
    · subst h1
      have h2 : (x == g) = false := by simpa using hfg
      simp [h2]; omega
    · have h1' : (x == f) = false := by simpa using h1
      by_cases h2 : x = g
      · subst h2; simp [h1']; omega
      · have h2' : (x == g) = false := by simpa using h2
        simp [h1', h2']; omega

/-- the counts over a duplicate-free list of exactly the voted keys add up to the number of votes -/
theorem sum_counts (order : List String) : ∀ (votes : List String),
    order.Nodup → (∀ k, k ∈ votes → k ∈ order) →
    (order.map (fun k => votes.count k)).sum = votes.length := by
  induction order with
  | nil =>
    intro votes _ hm
    cases votes with
    | nil => rfl
    | cons v vs => exact absurd (hm v (by simp)) (by simp)
  | cons k ks ih =>
    intro votes hnd hm
    have hk : k ∉ ks := (List.nodup_cons.mp hnd).1
    have hks : ks.Nodup := (List.nodup_cons.mp hnd).2
    let votes' := votes.filter (fun v => !(v == k))
    have hlen : votes.count k + votes'.length = votes.length := by
      show votes.count k + (votes.filter (fun v => !(v == k))).length = votes.length
      induction votes with
      | nil => rfl
      | cons v vs ihv =>
        have := ihv (fun x hx => hm x (List.mem_cons_of_mem _ hx))
        by_cases hv : v = k
        · subst hv; simp [List.filter_cons] at *; omega
        · have hv' : (v == k) = false := by simpa using hv
          simp [List.filter_cons, List.count_cons, hv, hv'] at *; omega
    have hm' : ∀ x, x ∈ votes' → x ∈ ks := by
      intro x hx
      have hx' := List.mem_filter.mp hx
      have hne : x ≠ k := by simpa using hx'.2
      have := hm x hx'.1
      rcases List.mem_cons.mp this with h | h
      · exact absurd h hne
      · exact h
    have hcnt : ∀ x, x ∈ ks → votes.count x = votes'.count x := by
      intro x hx
      have hne : x ≠ k := fun h => hk (h ▸ hx)
      show votes.count x = (votes.filter (fun v => !(v == k))).count x
      rw [List.count_filter]
      simpa using hne
    have := ih votes' hks hm'
    simp only [List.map_cons, List.sum_cons]
    have hmap : ks.map (fun k => votes.count k) = ks.map (fun k => votes'.count k) :=
      List.map_congr_left (fun x hx => hcnt x hx)
    rw [hmap, this]; exact hlen

/-! ### `findMajority` -/

theorem sorted_head_ge (l : List Nat) :
    ∀ n ∈ l, n ≤ (sortBy (fun a b => decide (b ≤ a)) l).headD 0 := by
  intro n hn
  have hperm := sortBy_perm (fun a b => decide (b ≤ a)) l
  have hsorted : (sortBy (fun a b => decide (b ≤ a)) l).Pairwise (fun a b => decide (b ≤ a) = true) :=
    sortBy_pairwise (fun a b => decide (b ≤ a))
      (by intro a b; simp; omega) (by intro a b c hab hbc; simp at *; omega) l
  have hn' : n ∈ sortBy (fun a b => decide (b ≤ a)) l := hperm.symm.subset hn
  cases hs : sortBy (fun a b => decide (b ≤ a)) l with
  | nil => simp [hs] at hn'
  | cons h t =>
    rw [hs] at hn' hsorted
    simp only [List.headD_cons]
    rcases List.mem_cons.mp hn' with rfl | ht
    · exact Nat.le_refl _
    · have := (List.pairwise_cons.mp hsorted).1 n ht
      simpa using this

theorem sorted_head_mem (l : List Nat) (hl : l ≠ []) :
    (sortBy (fun a b => decide (b ≤ a)) l).headD 0 ∈ l := by
  have hperm := sortBy_perm (fun a b => decide (b ≤ a)) l
  cases hs : sortBy (fun a b => decide (b ≤ a)) l with
  | nil =>
    have := hperm.length_eq
    rw [hs] at this
    exact absurd (List.length_eq_zero_iff.mp this.symm) hl
  | cons h t =>
    simp only [List.headD_cons]
    exact hperm.subset (by rw [hs]; simp)

/-- `findMajority` reports an index only for an element that reaches the clamped threshold -/
theorem findMajority_index (q t : Nat) (set : List Nat) (i : Nat)
    (h : findMajority q t set = (i : Int)) :
    i < set.length ∧ min t q ≤ set.getD i 0 := by
  unfold findMajority at h
  cases set with
  | nil => simp at h
  | cons a as =>
    simp only at h
    cases hf : (a :: as).findIdx? (fun n => decide (min t q ≤ n)) with
    | some j =>
      simp only [hf] at h
      have hj : j = i := by exact_mod_cast h
      subst hj
      have := List.findIdx?_eq_some_iff_getElem.mp hf
      obtain ⟨hlt, hp, _⟩ := this
      refine ⟨hlt, ?_⟩
      simp only [List.getD_eq_getElem?_getD, List.getElem?_eq_getElem hlt, Option.getD_some]
      simpa using hp
    | none =>
      simp only [hf] at h
      split at h <;> omega

theorem findMajority_exists (q t : Nat) (set : List Nat)
    (h : ∃ n ∈ set, min t q ≤ n) : ∃ i : Nat, findMajority q t set = (i : Int) := by
  unfold findMajority
  cases set with
  | nil => obtain ⟨n, hn, _⟩ := h; simp at hn
  | cons a as =>
    simp only
    cases hf : (a :: as).findIdx? (fun n => decide (min t q ≤ n)) with
    | some j => exact ⟨j, rfl⟩
    | none =>
      obtain ⟨n, hn, hle⟩ := h
      have := List.findIdx?_eq_none_iff.mp hf n hn
      simp at this; omega

/-- draw is reported exactly when the list is non-empty and no element can reach the threshold
    even with all missing votes -/
theorem findMajority_draw (q t : Nat) (set : List Nat) :
    findMajority q t set = -2 ↔
      set ≠ [] ∧ ∀ n ∈ set, (q - set.sum) + n < min t q := by
  unfold findMajority
  cases set with
  | nil => simp
  | cons a as =>
    simp only
    cases hf : (a :: as).findIdx? (fun n => decide (min t q ≤ n)) with
    | some j =>
      simp only
      have := List.findIdx?_eq_some_iff_getElem.mp hf
      obtain ⟨hlt, hp, _⟩ := this
      constructor
      · intro h; omega
      · intro ⟨_, h⟩
        have := h _ (List.getElem_mem hlt)
        simp at hp; omega
    | none =>
      simp only
      have hge := sorted_head_ge (a :: as)
      have hmem := sorted_head_mem (a :: as) (by simp)
      constructor
      · intro h
        refine ⟨by simp, ?_⟩
        intro n hn
        have h1 := hge n hn
        split at h
        · omega
        · omega
      · intro ⟨_, h⟩
        have := h _ hmem
        rw [if_pos this]

/-! ### `findVoteResult` against the specification -/

/-- the iteration order Go's map may produce: the distinct voted keys, in any order -/
def OrderOK (votes order : List String) : Prop :=
  order.Nodup ∧ ∀ k, k ∈ order ↔ k ∈ votes

theorem keyOfCount_spec (votes order : List String) (c : Nat)
    (h : ∃ k ∈ order, votes.count k = c) :
    votes.count (keyOfCount votes order c) = c := by
  unfold keyOfCount
  obtain ⟨k, hk, hc⟩ := h
  have hne : order.filter (fun k => votes.count k = c) ≠ [] := by
    intro he
    have : k ∈ order.filter (fun k => votes.count k = c) := List.mem_filter.mpr ⟨hk, by simpa using hc⟩
    rw [he] at this; simp at this
  cases hl : (order.filter (fun k => votes.count k = c)).getLast? with
  | none => exact absurd (List.getLast?_eq_none_iff.mp hl) hne
  | some x =>
    have hx : x ∈ order.filter (fun k => votes.count k = c) := List.mem_of_getLast? hl
    simpa using (List.mem_filter.mp hx).2

section
variable (q t : Nat) (votes order : List String)

private def sortedSet : List Nat :=
  sortBy (fun a b => decide (b ≤ a)) (order.map (fun k => votes.count k))

private theorem mem_sortedSet (n : Nat) :
    n ∈ sortedSet votes order ↔ ∃ k ∈ order, votes.count k = n := by
  unfold sortedSet
  rw [(sortBy_perm _ _).mem_iff]
  simp [List.mem_map]

private theorem sum_sortedSet (ho : OrderOK votes order) :
    (sortedSet votes order).sum = votes.length := by
  unfold sortedSet
  rw [(sortBy_perm _ _).sum_nat]
  exact sum_counts order votes ho.1 (fun k hk => (ho.2 k).mpr hk)

private theorem min_min : min (min t q) q = min t q := by omega

/-- ✦ soundness of MAJORITY, for every map order and every vote list (also overfull):
    a reported majority fact has reached the required count. -/
theorem majority_sound (f : String)
    (h : findVoteResult q t votes order = Res.majority f) : isMajority q t votes f := by
  unfold findVoteResult at h
  cases votes with
  | nil => simp at h
  | cons v vs =>
    simp only at h
    split at h
    · simp at h
    · simp at h
    · rename_i i hi
      have hi' := findMajority_index q (min t q) _ i hi
      rw [min_min] at hi'
      injection h with h
      subst h
      unfold isMajority
      have hmem : (sortBy (fun a b => decide (b ≤ a)) (order.map (fun k => (v :: vs).count k))).getD i 0
          ∈ sortedSet (v :: vs) order := by
        unfold sortedSet
        rw [List.getD_eq_getElem?_getD, List.getElem?_eq_getElem hi'.1]
        exact List.getElem_mem _
      rw [keyOfCount_spec _ _ _ ((mem_sortedSet _ _ _).mp hmem)]
      exact hi'.2
    · simp at h

/-- ✦ completeness of MAJORITY: if some fact has reached the required count, a majority is
    reported (and by `majority_sound` it is a fact that reached it). -/
theorem majority_complete (ho : OrderOK votes order) (f : String)
    (hpos : 0 < min t q) (hf : isMajority q t votes f) :
    ∃ g, findVoteResult q t votes order = Res.majority g := by
  unfold isMajority at hf
  have hfv : f ∈ votes := by
    apply Classical.byContradiction
    intro hc
    have := List.count_eq_zero_of_not_mem hc
    omega
  unfold findVoteResult
  cases votes with
  | nil => simp at hfv
  | cons v vs =>
    simp only
    have hex : ∃ n ∈ sortedSet (v :: vs) order, min (min t q) q ≤ n := by
      rw [min_min]
      exact ⟨_, (mem_sortedSet _ _ _).mpr ⟨f, (ho.2 f).mpr hfv, rfl⟩, hf⟩
    obtain ⟨i, hi⟩ := findMajority_exists q (min t q) _ hex
    unfold sortedSet at hi
    rw [hi]
    exact ⟨_, rfl⟩

/-- ✦ DRAW exactly when no fact can still reach the required count even if every missing node
    voted for it — including vote lists longer than the quorum (missing = 0). -/
theorem draw_iff (ho : OrderOK votes order) :
    findVoteResult q t votes order = Res.draw ↔ isDraw q t votes := by
  unfold isDraw
  cases hv : votes with
  | nil =>
    simp [findVoteResult]
    omega
  | cons v vs =>
    rw [← hv]
    have hne : votes ≠ [] := by rw [hv]; simp
    have hvm : v ∈ votes := by rw [hv]; simp
    have hdraw := findMajority_draw q (min t q) (sortedSet votes order)
    rw [min_min, sum_sortedSet votes order ho] at hdraw
    have hunf : findVoteResult q t votes order = Res.draw ↔
        findMajority q (min t q) (sortedSet votes order) = -2 := by
      unfold findVoteResult sortedSet
      rw [hv]
      simp only
      split
      · rename_i h; simp [h]
      · rename_i h; simp [h]
      · rename_i i h; simp [h]
      · rename_i h1 h2 h3
        simp
        intro h; exact h2 h
    rw [hunf, hdraw]
    constructor
    · intro ⟨_, h⟩ f
      by_cases hf : f ∈ votes
      · have := h _ ((mem_sortedSet _ _ _).mpr ⟨f, (ho.2 f).mpr hf, rfl⟩)
        omega
      · have h0 := List.count_eq_zero_of_not_mem hf
        have := h _ ((mem_sortedSet _ _ _).mpr ⟨v, (ho.2 v).mpr hvm, rfl⟩)
        omega
    · intro h
      refine ⟨?_, ?_⟩
      · intro he
        have : votes.count v ∈ sortedSet votes order :=
          (mem_sortedSet _ _ _).mpr ⟨v, (ho.2 v).mpr hvm, rfl⟩
        rw [he] at this; simp at this
      · intro n hn
        obtain ⟨k, _, hk⟩ := (mem_sortedSet _ _ _).mp hn
        have := h k
        omega

/-- ✦ NOT YET otherwise. -/
theorem notYet_iff (ho : OrderOK votes order) (hpos : 0 < min t q) :
    findVoteResult q t votes order = Res.notYet ↔
      (¬ ∃ f, isMajority q t votes f) ∧ ¬ isDraw q t votes := by
  constructor
  · intro h
    refine ⟨?_, ?_⟩
    · intro ⟨f, hf⟩
      obtain ⟨g, hg⟩ := majority_complete q t votes order ho f hpos hf
      rw [hg] at h; cases h
    · intro hd
      rw [(draw_iff q t votes order ho).mpr hd] at h; cases h
  · intro ⟨hm, hd⟩
    cases hr : findVoteResult q t votes order with
    | majority g => exact absurd ⟨g, majority_sound q t votes order g hr⟩ hm
    | draw => exact absurd ((draw_iff q t votes order ho).mp hr) hd
    | notYet => rfl

end

/-- ✦ at most one fact can reach the required count (votes ≤ quorum, threshold above half). -/
theorem majority_unique (q t : Nat) (votes : List String) (f g : String)
    (hlen : votes.length ≤ q) (hhalf : q < 2 * min t q)
    (hf : isMajority q t votes f) (hg : isMajority q t votes g) : f = g := by
  apply Classical.byContradiction
  intro hne
  have := count_add_count_le f g hne votes
  unfold isMajority at hf hg
  omega

/-- ✦ "MAJORITY for F exactly when F reaches the required count" (unique-majority regime). -/
theorem majority_iff (q t : Nat) (votes order : List String) (f : String)
    (ho : OrderOK votes order) (hpos : 0 < min t q)
    (hlen : votes.length ≤ q) (hhalf : q < 2 * min t q) :
    findVoteResult q t votes order = Res.majority f ↔ isMajority q t votes f := by
  constructor
  · exact majority_sound q t votes order f
  · intro hf
    obtain ⟨g, hg⟩ := majority_complete q t votes order ho f hpos hf
    have := majority_unique q t votes f g hlen hhalf hf (majority_sound q t votes order g hg)
    rw [this]; exact hg

/-- ✦ composition with C02: with the protocol's threshold (`required q t10`, t ≥ 51 %) the
    half condition holds, so the majority is unique. -/
theorem protocol_threshold_above_half (q t10 : Nat) (hq : 0 < q) (ht : 510 ≤ t10) (ht' : t10 ≤ 1000) :
    q < 2 * min (Threshold.required q t10) q ∧ 0 < min (Threshold.required q t10) q := by
  have h1 := (C02.required_is_least q t10).1
  have h2 := C02.required_le_n q t10 ht'
  have h3 : q * 510 ≤ q * t10 := Nat.mul_le_mul_left q ht
  omega

/-- ✦ tie to the source: the functions transcribed by the model are the ones in the tree. -/
theorem source_pinned :
    Gen.C01.extractErrors = [] ∧ Gen.C01.pins = Pins.C01 := by
  refine ⟨by decide, by decide⟩

/-- the overfull case that the unrepaired code (wrapping `uint` subtraction) got wrong:
    3 facts × 2 votes, quorum 3, threshold 3 is a DRAW. -/
example : findMajority 3 3 [2, 2, 2] = -2 := by decide
example : findVoteResult 3 3 ["a", "a", "b", "b", "c", "c"] ["a", "b", "c"] = Res.draw := by decide
-- non-vacuity of the hypotheses
example : OrderOK ["a", "a", "a", "b"] ["b", "a"] := by
  refine ⟨by decide, ?_⟩
  intro k; simp; constructor <;> intro h <;> rcases h with h | h <;> simp [h]
example : findVoteResult 4 3 ["a", "a", "a", "b"] ["b", "a"] = Res.majority "a" := by decide
example : (4 : Nat) < 2 * min 3 4 ∧ 0 < min 3 4 := by decide

end Mitum.C01
