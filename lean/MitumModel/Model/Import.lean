import MitumModel.Model.BatchWork
/-
Model of `isaacblock.ImportBlocks` (isaac/block/import_block.go): per batch the
`pref` callback saves the importers of the *previous* batch; after the loop the
importers of the last batch are saved under the regenerated condition
`finalSave` (the unrepaired code: only when the last batch is shorter than the
batch limit).
-/
namespace Mitum.Import
open Mitum.BatchWork

inductive FinalSave where
  | lenLtLimit     -- `if int64(len(ims)) < batchlimit`
  | lenPos         -- `if len(ims) > 0`
  | always
deriving Repr, DecidableEq

/-- heights of one batch: `from + first … from + last` -/
def batchHeights (frm : Nat) (b : Batch) : List Nat := (List.range' b.first (b.last + 1 - b.first)).map (· + frm)

/-- the heights saved (in save order) by a successful run over the given batches -/
def savedBy (fs : FinalSave) (frm limit : Nat) : List Batch → Option Batch → List Nat
  | [], pending =>
    match pending with
    | none => []
    | some b =>
      let len := b.last + 1 - b.first
      match fs with
      | .lenLtLimit => if len < limit then batchHeights frm b else []
      | .lenPos => if 0 < len then batchHeights frm b else []
      | .always => batchHeights frm b
  | b :: rest, pending =>
    (match pending with | some p => batchHeights frm p | none => []) ++ savedBy fs frm limit rest (some b)

/-- `ImportBlocks(from, to, limit)` when no importer fails: the saved heights -/
def run (fs : FinalSave) (frm to limit : Nat) : Option (List Nat) :=
  (plan (to + 1 - frm) limit).map (fun bs => savedBy fs frm limit bs none)

/-- the batches a run saves, in order, each as its heights (the same recursion as `savedBy`) -/
def savesOf (fs : FinalSave) (frm limit : Nat) : List Batch → Option Batch → List (List Nat)
  | [], pending =>
    match pending with
    | none => []
    | some b =>
      let len := b.last + 1 - b.first
      match fs with
      | .lenLtLimit => if len < limit then [batchHeights frm b] else []
      | .lenPos => if 0 < len then [batchHeights frm b] else []
      | .always => [batchHeights frm b]
  | b :: rest, pending =>
    (match pending with | some p => [batchHeights frm p] | none => []) ++ savesOf fs frm limit rest (some b)

/-- what can go wrong while a batch is saved -/
inductive Fault where
  | none
  | mergeFails (h : Nat)           -- the merge step (the function `Save` returned) of block `h` fails
  | cancelDuringMerge (h : Nat)    -- the run's context is cancelled while block `h` is merged
deriving Repr, DecidableEq

/-- the clauses of `saveImporters` (extracted from the source on every run) -/
structure SaveCode where
  singleReturnsMergeError : Bool   -- the one-importer branch returns the error of the merge step
  mergesIgnoreContext : Bool       -- the merge loop runs every merge, whatever the context says
deriving Repr, DecidableEq

def fixedCode : SaveCode := { singleReturnsMergeError := true, mergesIgnoreContext := true }

/-- the merges of one batch, one after the other: `none` = `saveImporters` returns an error -/
def mergeAll (code : SaveCode) (fault : Fault) (single : Bool) : List Nat → List Nat → Bool → Option (List Nat × Bool)
  | [], stored, cancelled => some (stored, cancelled)
  | h :: rest, stored, cancelled =>
    if !code.mergesIgnoreContext && cancelled then some (stored, cancelled)        -- stops merging, reports success
    else if fault = .mergeFails h then
      (if single && !code.singleReturnsMergeError then some (stored, cancelled) else none)
    else mergeAll code fault single rest (stored ++ [h]) (cancelled || decide (fault = .cancelDuringMerge h))

/-- the saves of a run in order; after a save during which the context was cancelled the next batch's jobs fail -/
def saveSeq (code : SaveCode) (fault : Fault) : List (List Nat) → List Nat → Option (List Nat)
  | [], stored => some stored
  | hs :: rest, stored =>
    match mergeAll code fault (hs.length == 1) hs stored false with
    | none => none
    | some (stored', cancelled) =>
      if cancelled && !rest.isEmpty then none else saveSeq code fault rest stored'

/-- `ImportBlocks(from, to, limit)` under a fault: `none` = no plan, `some none` = an error is returned -/
def runF (code : SaveCode) (fault : Fault) (fs : FinalSave) (frm to limit : Nat) : Option (Option (List Nat)) :=
  (plan (to + 1 - frm) limit).map (fun bs => saveSeq code fault (savesOf fs frm limit bs none) [])

end Mitum.Import
