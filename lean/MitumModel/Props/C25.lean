import MitumModel.Model.Prefix
import MitumModel.Lemmas.Sort
import MitumModel.Gen.C25
import MitumModel.Pins
/-!
C25  Prefix storage isolates prefixes.
-/
namespace Mitum.C25
open Mitum Mitum.Prefix

def IsBytes (b : Bytes) : Prop := ∀ x ∈ b, x < 256

theorem ltB_nil_right (k : Bytes) : ltB k [] = false := by cases k <;> rfl

theorem ltB_irrefl (a : Bytes) : ltB a a = false := by
  induction a with
  | nil => rfl
  | cons x xs ih => simp [ltB, ih]

theorem ltB_trans : ∀ (a b c : Bytes), ltB a b = true → ltB b c = true → ltB a c = true := by
  intro a
  induction a with
  | nil =>
    intro b c h1 h2
    cases b with
    | nil => simp [ltB] at h1
    | cons y ys =>
      cases c with
      | nil => simp [ltB] at h2
      | cons z zs => rfl
  | cons x xs ih =>
    intro b c h1 h2
    cases b with
    | nil => simp [ltB] at h1
    | cons y ys =>
      cases c with
      | nil => simp [ltB] at h2
      | cons z zs =>
        simp only [ltB, Bool.or_eq_true, Bool.and_eq_true, decide_eq_true_eq] at h1 h2 ⊢
        rcases h1 with h1 | ⟨h1, h1'⟩ <;> rcases h2 with h2 | ⟨h2, h2'⟩
        · left; omega
        · left; omega
        · left; omega
        · right; exact ⟨by omega, ih ys zs h1' h2'⟩

theorem ltB_total (a b : Bytes) : ltB a b = true ∨ a = b ∨ ltB b a = true := by
  induction a generalizing b with
  | nil => cases b with
    | nil => right; left; rfl
    | cons y ys => left; rfl
  | cons x xs ih =>
    cases b with
    | nil => right; right; rfl
    | cons y ys =>
      simp only [ltB, Bool.or_eq_true, Bool.and_eq_true, decide_eq_true_eq]
      rcases Nat.lt_trichotomy x y with h | h | h
      · left; left; exact h
      · subst h
        rcases ih ys with h' | h' | h'
        · left; right; exact ⟨rfl, h'⟩
        · right; left; rw [h']
        · right; right; right; exact ⟨rfl, h'⟩
      · right; right; left; exact h

theorem leB_trans (a b c : Bytes) (h1 : leB a b = true) (h2 : leB b c = true) : leB a c = true := by
  unfold leB at *
  simp only [Bool.not_eq_true'] at *
  rcases ltB_total c a with h | h | h
  · -- c < a: then with a ≤ b: c < b contradicts b ≤ c
    rcases ltB_total a b with h' | h' | h'
    · have := ltB_trans c a b h h'; rw [this] at h2; cases h2
    · subst h'; rw [h] at h2; cases h2
    · rw [h'] at h1; cases h1
  · subst h; exact ltB_irrefl c
  · rcases hh : ltB c a with _ | _
    · rfl
    · have := ltB_trans c a c hh h; rw [ltB_irrefl] at this; cases this

theorem leB_total (a b : Bytes) : leB a b = true ∨ leB b a = true := by
  unfold leB
  cases h1 : ltB b a with
  | false => left; rfl
  | true =>
    right
    cases h2 : ltB a b with
    | false => rfl
    | true => have := ltB_trans a b a h2 h1; rw [ltB_irrefl] at this; cases this

/-- ✦ `util.BytesPrefix(p)` is exactly the set of keys with prefix `p` (also for prefixes ending
    in 0xff bytes and for the all-0xff prefix, which has no limit). -/
theorem bytesPrefix_range : ∀ (p k : Bytes), IsBytes p → IsBytes k →
    (inRange (bytesPrefix p) k = true ↔ p <+: k) := by
  intro p
  induction p with
  | nil =>
    intro k _ _
    simp [inRange, bytesPrefix, prefixLimit, leB, ltB_nil_right]
  | cons a as ih =>
    intro k hp hk
    have hpa : a < 256 := hp a (by simp)
    have hpas : IsBytes as := fun x hx => hp x (List.mem_cons_of_mem _ hx)
    cases k with
    | nil => simp [inRange, bytesPrefix, leB, ltB]
    | cons b bs =>
      have hkb : b < 256 := hk b (by simp)
      have hkbs : IsBytes bs := fun x hx => hk x (List.mem_cons_of_mem _ hx)
      have ih' := ih bs hpas hkbs
      rw [List.cons_prefix_cons, ← ih']
      simp only [inRange, bytesPrefix, prefixLimit, leB]
      cases hl : prefixLimit as with
      | some l =>
        simp only [ltB, Bool.and_eq_true, Bool.not_eq_true', Bool.or_eq_false_iff, Bool.or_eq_true,
          decide_eq_false_iff_not, decide_eq_true_eq, Bool.and_eq_false_imp]
        constructor
        · rintro ⟨⟨h1, h2⟩, h3⟩
          have hab : a = b := by
            rcases h3 with h3 | ⟨h3, _⟩ <;> omega
          subst hab
          refine ⟨rfl, ?_, ?_⟩
          · cases hh : ltB bs as with
            | false => rfl
            | true => exact absurd hh (by simpa using h2 rfl)
          · rcases h3 with h3 | ⟨_, h3⟩
            · omega
            · exact h3
        · rintro ⟨rfl, h2, h3⟩
          refine ⟨⟨by omega, fun _ => h2⟩, Or.inr ⟨rfl, h3⟩⟩
      | none =>
        by_cases ha : a < 255
        · simp only [ha, if_true, ltB, ltB_nil_right, Bool.and_false, Bool.or_false, Bool.and_eq_true,
            Bool.not_eq_true', Bool.or_eq_false_iff, decide_eq_false_iff_not, decide_eq_true_eq,
            Bool.and_eq_false_imp, Bool.and_true]
          constructor
          · rintro ⟨⟨h1, h2⟩, h3⟩
            have hab : a = b := by omega
            subst hab
            exact ⟨rfl, by
              cases hh : ltB bs as with
              | false => rfl
              | true => exact absurd hh (by simpa using h2 rfl)⟩
          · rintro ⟨rfl, h2⟩
            exact ⟨⟨by omega, fun _ => h2⟩, by omega⟩
        · simp only [ha, if_false, ltB, Bool.and_eq_true, Bool.not_eq_true', Bool.or_eq_false_iff,
            decide_eq_false_iff_not, decide_eq_true_eq, Bool.and_eq_false_imp, Bool.and_true]
          constructor
          · rintro ⟨h1, h2⟩
            have hab : a = b := by omega
            subst hab
            exact ⟨rfl, by
              cases hh : ltB bs as with
              | false => rfl
              | true => exact absurd hh (by simpa using h2 rfl)⟩
          · rintro ⟨rfl, h2⟩
            exact ⟨by omega, fun _ => h2⟩

/-! ### lookups under the primitive store operations -/

theorem lookup_filter_key (g : Bytes → Bool) (k : Bytes) (s : Store) :
    lookup k (s.filter (fun e => g e.1)) = if g k then lookup k s else none := by
  induction s with
  | nil => simp [lookup]
  | cons e rest ih =>
    obtain ⟨k', v⟩ := e
    by_cases hg : g k' = true
    · simp only [List.filter_cons, hg, if_true, lookup]
      by_cases hk : k' = k
      · subst hk; simp [hg]
      · simp [hk, ih]
    · simp only [List.filter_cons, hg, lookup]
      by_cases hk : k' = k
      · subst hk; simp [hg, ih]
      · simp [hk, ih]

theorem lookup_append (k : Bytes) (l₁ l₂ : Store) :
    lookup k (l₁ ++ l₂) = match lookup k l₁ with | some v => some v | none => lookup k l₂ := by
  induction l₁ with
  | nil => simp [lookup]
  | cons e rest ih =>
    obtain ⟨k', v⟩ := e
    simp only [List.cons_append, lookup]
    by_cases h : k' = k
    · simp [h]
    · simp [h, ih]

theorem lookup_put_ne (s : Store) (fk v k : Bytes) (h : k ≠ fk) : lookup k (put s fk v) = lookup k s := by
  unfold put
  rw [lookup_append, lookup_filter_key (fun x => !decide (x = fk))]
  have : (!decide (k = fk)) = true := by simpa using h
  simp only [this, if_true]
  cases lookup k s with
  | some w => rfl
  | none => simp [lookup, Ne.symm h]

theorem lookup_put_eq (s : Store) (fk v : Bytes) : lookup fk (put s fk v) = some v := by
  unfold put
  rw [lookup_append, lookup_filter_key (fun x => !decide (x = fk))]
  simp [lookup]

theorem lookup_delete (s : Store) (fk k : Bytes) :
    lookup k (delete s fk) = if k = fk then none else lookup k s := by
  unfold delete
  rw [lookup_filter_key (fun x => !decide (x = fk))]
  by_cases h : k = fk <;> simp [h]

theorem prefix_of_pkey (p k fk : Bytes) (h : pkey (some p) k = some fk) : p <+: fk := by
  unfold pkey at h
  by_cases hk : k = []
  · simp [hk] at h
  · simp [hk] at h; subst h; exact List.prefix_append p k

/-- ✦ isolation of writes: a `Put`/`Delete` through prefix `p` changes no key outside `p`. -/
theorem write_isolated (s : Store) (p k v k' : Bytes) (hout : ¬ p <+: k') :
    lookup k' (pPut s (some p) k v).1 = lookup k' s ∧ lookup k' (pDelete s (some p) k).1 = lookup k' s := by
  unfold pPut pDelete
  cases hk : pkey (some p) k with
  | none => exact ⟨rfl, rfl⟩
  | some fk =>
    have hpre := prefix_of_pkey p k fk hk
    have hne : k' ≠ fk := fun h => hout (h ▸ hpre)
    exact ⟨lookup_put_ne s fk v k' hne, by rw [lookup_delete]; simp [hne]⟩

/-- ✦ isolation of reads: a `Get` through prefix `p` reads exactly the key `p ‖ k`. -/
theorem read_isolated (s : Store) (p k : Bytes) (hk : k ≠ []) :
    pGet s (some p) k = .ok (lookup (p ++ k) s) := by
  unfold pGet pkey; simp [hk]

/-- a closed prefix storage refuses every keyed operation -/
theorem closed_refuses (s : Store) (k v : Bytes) :
    pGet s none k = .closed ∧ pPut s none k v = (s, .closed) ∧ pDelete s none k = (s, .closed) := by
  simp [pGet, pPut, pDelete, pkey]

theorem mem_iter (s : Store) (r : Range) (e : Bytes × Bytes) :
    e ∈ iter s r ↔ e ∈ s ∧ inRange r e.1 = true := by
  unfold iter
  rw [(sortBy_perm _ _).mem_iff, List.mem_filter]

theorem leB_refl (a : Bytes) : leB a a = true := by unfold leB; simp [ltB_irrefl]

theorem leB_prefix_append (p x : Bytes) : leB p (p ++ x) = true := by
  induction p with
  | nil => simp [leB, ltB_nil_right]
  | cons a as ih =>
    unfold leB at *
    simp only [List.cons_append, ltB, Bool.not_eq_true', Bool.or_eq_false_iff, decide_eq_false_iff_not,
      Bool.and_eq_false_imp, decide_eq_true_eq]
    exact ⟨by omega, fun _ => by simpa using ih⟩

/-- every key with prefix `p` is below `prefixLimit p` -/
theorem lt_limit_of_prefix : ∀ (p x lim : Bytes), IsBytes p → IsBytes x → prefixLimit p = some lim →
    ltB (p ++ x) lim = true := by
  intro p x lim hp hx hl
  have : inRange (bytesPrefix p) (p ++ x) = true :=
    (bytesPrefix_range p (p ++ x) hp (by
      intro y hy
      rcases List.mem_append.mp hy with h | h
      · exact hp y h
      · exact hx y h)).mpr (List.prefix_append p x)
  simp only [inRange, bytesPrefix, hl, Bool.and_eq_true] at this
  exact this.2

/-- ✦ isolation of iteration: whatever sub-range is asked for, every key an iteration through
    prefix `p` visits lies under `p` (and the caller sees it with the prefix stripped). -/
theorem iter_isolated (s : Store) (p : Bytes) (r : Option Range) (hp : IsBytes p)
    (hs : ∀ e ∈ s, IsBytes e.1)
    (hr : ∀ rr, r = some rr → (∀ x, rr.start = some x → IsBytes x) ∧ (∀ x, rr.limit = some x → IsBytes x))
    (res : List (Bytes × Bytes)) (h : pIter true s (some p) r = .ok res) :
    ∀ e ∈ res, ∃ fe ∈ s, p <+: fe.1 ∧ e = (fe.1.drop p.length, fe.2) := by
  unfold pIter at h
  simp only at h
  -- every branch maps over `iter s range` with a range inside `bytesPrefix p`
  have key : ∀ (st l : Option Bytes),
      (st = some p ∨ ∃ x, IsBytes x ∧ st = some (p ++ x)) →
      (l = prefixLimit p ∨ ∃ y, IsBytes y ∧ l = some (p ++ y)) →
      ∀ e ∈ (iter s { start := st, limit := l }).map (fun e => (e.1.drop p.length, e.2)),
        ∃ fe ∈ s, p <+: fe.1 ∧ e = (fe.1.drop p.length, fe.2) := by
    intro st l hst hl e he
    obtain ⟨fe, hfe, rfl⟩ := List.mem_map.mp he
    obtain ⟨hmem, hin⟩ := (mem_iter s _ fe).mp hfe
    refine ⟨fe, hmem, ?_, rfl⟩
    apply (bytesPrefix_range p fe.1 hp (hs fe hmem)).mp
    simp only [inRange, Bool.and_eq_true] at hin ⊢
    obtain ⟨h1, h2⟩ := hin
    refine ⟨?_, ?_⟩
    · simp only [bytesPrefix]
      rcases hst with rfl | ⟨x, _, rfl⟩
      · exact h1
      · exact leB_trans p (p ++ x) fe.1 (leB_prefix_append p x) h1
    · simp only [bytesPrefix]
      rcases hl with rfl | ⟨y, hy, rfl⟩
      · exact h2
      · cases hlim : prefixLimit p with
        | none => rfl
        | some lim =>
          simp only at h2 ⊢
          exact ltB_trans fe.1 (p ++ y) lim h2 (lt_limit_of_prefix p y lim hp hy hlim)
  cases r with
  | none =>
    simp only at h
    injection h with h; subst h
    exact key (some p) (prefixLimit p) (Or.inl rfl) (Or.inl rfl)
  | some rr =>
    obtain ⟨hrs, hrl⟩ := hr rr rfl
    simp only at h
    cases hst : rr.start with
    | none =>
      cases hli : rr.limit with
      | none =>
        simp only [hst, hli, bytesPrefix] at h
        injection h with h; subst h
        exact key (some p) (prefixLimit p) (Or.inl rfl) (Or.inl rfl)
      | some y =>
        simp only [hst, hli, bytesPrefix, pkey] at h
        by_cases hy : y = []
        · simp [hy] at h
        · simp only [hy, if_false, Option.map_some] at h
          injection h with h; subst h
          exact key (some p) (some (p ++ y)) (Or.inl rfl) (Or.inr ⟨y, hrl y hli, rfl⟩)
    | some x =>
      by_cases hx : x = []
      · simp [hst, pkey, hx] at h
      · cases hli : rr.limit with
        | none =>
          simp only [hst, hli, bytesPrefix, pkey, hx, if_false, Option.map_some] at h
          injection h with h; subst h
          exact key (some (p ++ x)) (prefixLimit p) (Or.inr ⟨x, hrs x hst, rfl⟩) (Or.inl rfl)
        | some y =>
          by_cases hy : y = []
          · simp [hst, hli, pkey, hx, hy] at h
          · simp only [hst, hli, pkey, hx, hy, if_false, Option.map_some] at h
            injection h with h; subst h
            exact key (some (p ++ x)) (some (p ++ y)) (Or.inr ⟨x, hrs x hst, rfl⟩) (Or.inr ⟨y, hrl y hli, rfl⟩)

/-- ✦ removing a prefix deletes exactly the keys under it. -/
theorem remove_by_prefix_exact (s : Store) (p k : Bytes) (hp : IsBytes p) (hk : IsBytes k) :
    lookup k (removeByPrefix s p) = if p <+: k then none else lookup k s := by
  unfold removeByPrefix
  rw [lookup_filter_key (fun x => !inRange (bytesPrefix p) x)]
  by_cases h : p <+: k
  · simp [h, (bytesPrefix_range p k hp hk).mpr h]
  · have : inRange (bytesPrefix p) k = false := by
      cases hh : inRange (bytesPrefix p) k with
      | false => rfl
      | true => exact absurd ((bytesPrefix_range p k hp hk).mp hh) h
    simp [h, this]

/-- ✦ with the closed-guard fact, `Remove()` of an open prefix storage removes exactly its keys
    and a closed one removes nothing. -/
theorem pRemove_exact (s : Store) (pfx : Option Bytes) (k : Bytes) (hk : IsBytes k)
    (hp : ∀ p, pfx = some p → IsBytes p) :
    lookup k (pRemove true s pfx).1 =
      match pfx with
      | none => lookup k s
      | some p => if p <+: k then none else lookup k s := by
  cases pfx with
  | none => simp [pRemove]
  | some p => simp only [pRemove]; exact remove_by_prefix_exact s p k (hp p rfl) hk

/-- ✗ why the guard fact matters: without it, `Close; Remove` wipes the keys of every other
    prefix (a nil prefix ranges over the whole key space). -/
theorem remove_after_close_witness :
    (pRemove false [([1, 2, 9], [7]), ([3, 4, 9], [8])] none).1 = [] := by decide

/-! ### `BatchRemove`: rounds of at most `n` deletions until a round finds nothing -/

/-- the keys of a store are pairwise distinct (a map) -/
def Distinct (s : Store) : Prop := s.Pairwise (fun a b => a.1 ≠ b.1)

def cnt (s : Store) (r : Range) : Nat := (s.filter (fun e => inRange r e.1)).length

theorem ltB_of_leB_ne (a b : Bytes) (h : leB a b = true) (hne : a ≠ b) : ltB a b = true := by
  unfold leB at h
  rcases ltB_total a b with h1 | h1 | h1
  · exact h1
  · exact absurd h1 hne
  · rw [h1] at h; cases h

theorem leB_of_ltB (a b : Bytes) (h : ltB a b = true) : leB a b = true := by
  unfold leB
  cases hh : ltB b a with
  | false => rfl
  | true => have := ltB_trans a b a h hh; rw [ltB_irrefl] at this; cases this

/-- the keys visited by an iteration, in order -/
def keysOf (s : Store) (r : Range) : List Bytes := (iter s r).map (·.1)

theorem mem_keysOf (s : Store) (r : Range) (k : Bytes) :
    k ∈ keysOf s r ↔ (∃ v, (k, v) ∈ s) ∧ inRange r k = true := by
  unfold keysOf
  simp only [List.mem_map, mem_iter]
  constructor
  · rintro ⟨e, ⟨he, hr⟩, rfl⟩; exact ⟨⟨e.2, he⟩, hr⟩
  · rintro ⟨⟨v, hv⟩, hr⟩; exact ⟨(k, v), ⟨hv, hr⟩, rfl⟩

theorem keysOf_perm (s : Store) (r : Range) :
    (keysOf s r).Perm ((s.filter (fun e => inRange r e.1)).map (·.1)) := by
  unfold keysOf iter
  exact (sortBy_perm _ _).map _

theorem keysOf_sorted (s : Store) (r : Range) (hd : Distinct s) :
    (keysOf s r).Pairwise (fun a b => ltB a b = true) := by
  unfold keysOf
  rw [List.pairwise_map]
  have h1 : (iter s r).Pairwise (fun a b => leB a.1 b.1 = true) := by
    unfold iter
    exact sortBy_pairwise (fun (a b : Bytes × Bytes) => leB a.1 b.1) (fun a b => leB_total a.1 b.1)
      (fun a b c => leB_trans a.1 b.1 c.1) _
  have h2 : (iter s r).Pairwise (fun a b => a.1 ≠ b.1) := by
    unfold iter
    have : (s.filter (fun e => inRange r e.1)).Pairwise (fun a b => a.1 ≠ b.1) := List.Pairwise.filter _ hd
    exact (sortBy_perm _ _).symm.pairwise this (fun {a b} h => Ne.symm h)
  exact (h1.and h2).imp (fun {a b} h => ltB_of_leB_ne a.1 b.1 h.1 h.2)

theorem keysOf_nodup (s : Store) (r : Range) (hd : Distinct s) : (keysOf s r).Nodup := by
  exact (keysOf_sorted s r hd).imp (fun {a b} h e => by subst e; rw [ltB_irrefl] at h; cases h)

theorem sorted_drop (l : List Bytes) (hl : l.Pairwise (fun a b => ltB a b = true)) (n : Nat) (k : Bytes)
    (hk : k ∈ l.drop n) : ∃ kn, l[n]? = some kn ∧ leB kn k = true := by
  have hn : n < l.length := by
    apply Nat.lt_of_not_ge
    intro hh
    rw [List.drop_eq_nil_iff.mpr hh] at hk
    cases hk
  refine ⟨l[n], List.getElem?_eq_getElem hn, ?_⟩
  have hp : (l.drop n).Pairwise (fun a b => ltB a b = true) := hl.sublist (List.drop_sublist n l)
  rw [List.drop_eq_getElem_cons hn] at hp hk
  rcases List.mem_cons.mp hk with rfl | hk'
  · exact leB_refl _
  · exact leB_of_ltB _ _ ((List.pairwise_cons.mp hp).1 k hk')

theorem filter_mem_left {α : Type} (p : α → Bool) (a b : List α) (hp : ∀ x, p x = true ↔ x ∈ a)
    (h : (a ++ b).Nodup) : (a ++ b).filter p = a := by
  rw [List.filter_append]
  have hd := List.nodup_append.mp h
  have h1 : a.filter p = a := by
    apply List.filter_eq_self.mpr; intro x hx; exact (hp x).mpr hx
  have h2 : b.filter p = [] := by
    apply List.filter_eq_nil_iff.mpr
    intro x hx hpx
    exact hd.2.2 x ((hp x).mp hpx) x hx rfl
  rw [h1, h2, List.append_nil]

theorem filter_mem_take {α : Type} (p : α → Bool) (l : List α) (n : Nat) (hp : ∀ x, p x = true ↔ x ∈ l.take n)
    (h : l.Nodup) : (l.filter p).length = (l.take n).length := by
  have := filter_mem_left p (l.take n) (l.drop n) hp (by rw [List.take_append_drop]; exact h)
  rw [List.take_append_drop] at this
  rw [this]


/-- the range the next round of `BatchRemove` iterates -/
def nextStart (ks : List Bytes) (start : Option Bytes) (n : Nat) : Option Bytes :=
  match ks[n]? with | some k => some k | none => start

theorem inRange_of_ge (start limit : Option Bytes) (kn k : Bytes)
    (h1 : inRange ⟨start, limit⟩ kn = true) (h2 : inRange ⟨some kn, limit⟩ k = true) :
    inRange ⟨start, limit⟩ k = true := by
  cases start with
  | none => simp only [inRange, Bool.and_eq_true] at *; exact ⟨trivial, h2.2⟩
  | some st =>
    simp only [inRange, Bool.and_eq_true] at *
    exact ⟨leB_trans st kn k h1.1 h2.1, h2.2⟩

theorem length_filter_split {α : Type} (p : α → Bool) (l : List α) :
    l.length = (l.filter p).length + (l.filter (fun a => !p a)).length := by
  induction l with
  | nil => rfl
  | cons x xs ih =>
    cases hp : p x <;> simp [hp] <;> omega

/-- for a key of the store that the round did not delete, being in the old range and being in the
    next round's range are the same thing -/
theorem round_range (s : Store) (start limit : Option Bytes) (n : Nat) (hd : Distinct s)
    (k : Bytes) (hk : ∃ v, (k, v) ∈ s) (hnd : k ∉ (keysOf s ⟨start, limit⟩).take n) :
    inRange ⟨nextStart (keysOf s ⟨start, limit⟩) start n, limit⟩ k = inRange ⟨start, limit⟩ k := by
  have hs := keysOf_sorted s ⟨start, limit⟩ hd
  unfold nextStart
  cases hkn : (keysOf s ⟨start, limit⟩)[n]? with
  | none => rfl
  | some kn =>
    simp only
    have hknm : kn ∈ keysOf s ⟨start, limit⟩ := List.mem_of_getElem? hkn
    have hknr := ((mem_keysOf s _ kn).mp hknm).2
    cases hr : inRange ⟨start, limit⟩ k with
    | true =>
      have hkm : k ∈ keysOf s ⟨start, limit⟩ := (mem_keysOf s _ k).mpr ⟨hk, hr⟩
      have : k ∈ (keysOf s ⟨start, limit⟩).drop n := by
        rw [← List.take_append_drop n (keysOf s ⟨start, limit⟩)] at hkm
        rcases List.mem_append.mp hkm with h | h
        · exact absurd h hnd
        · exact h
      obtain ⟨kn', h1, h2⟩ := sorted_drop _ hs n k this
      rw [hkn] at h1; cases h1
      unfold inRange at hr ⊢
      simp only [Bool.and_eq_true] at hr ⊢
      exact ⟨h2, hr.2⟩
    | false =>
      cases hr' : inRange ⟨some kn, limit⟩ k with
      | false => rfl
      | true =>
        rw [inRange_of_ge start limit kn k hknr hr'] at hr
        cases hr

theorem take_sub_range (s : Store) (r : Range) (n : Nat) (k : Bytes)
    (h : k ∈ (keysOf s r).take n) : inRange r k = true :=
  ((mem_keysOf s r k).mp (List.mem_of_mem_take h)).2

/-- what one round leaves outside the next range is what lies outside the old range -/
theorem round_outside (s : Store) (start limit : Option Bytes) (n : Nat) (hd : Distinct s) :
    ((batchRound s start limit n).1).filter (fun e => !inRange ⟨(batchRound s start limit n).2.1, limit⟩ e.1) =
      s.filter (fun e => !inRange ⟨start, limit⟩ e.1) := by
  unfold batchRound
  simp only [List.filter_filter]
  apply List.filter_congr
  intro e he
  have hk : ∃ v, (e.1, v) ∈ s := ⟨e.2, he⟩
  change (!inRange ⟨nextStart (keysOf s ⟨start, limit⟩) start n, limit⟩ e.1 &&
      !((keysOf s ⟨start, limit⟩).take n).contains e.1) = !inRange ⟨start, limit⟩ e.1
  by_cases hm : e.1 ∈ (keysOf s ⟨start, limit⟩).take n
  · have := take_sub_range s _ n e.1 hm
    rw [this]
    simp [hm]
  · rw [round_range s start limit n hd e.1 hk hm]
    simp [hm]

/-- the count: one round deletes `del.length` keys of the range and leaves the others in the next range -/
theorem round_count (s : Store) (start limit : Option Bytes) (n : Nat) (hd : Distinct s) :
    cnt s ⟨start, limit⟩ = (batchRound s start limit n).2.2 +
      cnt (batchRound s start limit n).1 ⟨(batchRound s start limit n).2.1, limit⟩ := by
  unfold cnt
  rw [length_filter_split (fun e => ((keysOf s ⟨start, limit⟩).take n).contains e.1) (s.filter _)]
  congr 1
  · -- the deleted ones
    have hp := keysOf_perm s ⟨start, limit⟩
    have hn := keysOf_nodup s ⟨start, limit⟩ hd
    have h1 : ((s.filter (fun e => inRange ⟨start, limit⟩ e.1)).filter
        (fun e => ((keysOf s ⟨start, limit⟩).take n).contains e.1)).length =
        (((s.filter (fun e => inRange ⟨start, limit⟩ e.1)).map (·.1)).filter
          (fun k => decide (k ∈ (keysOf s ⟨start, limit⟩).take n))).length := by
      rw [List.filter_map, List.length_map]
      congr 1
      apply List.filter_congr
      intro e _
      simp
    rw [h1, ← (hp.filter _).length_eq]
    exact filter_mem_take _ _ n (fun x => by simp) hn
  · unfold batchRound
    simp only [List.filter_filter]
    congr 1
    apply List.filter_congr
    intro e he
    have hk : ∃ v, (e.1, v) ∈ s := ⟨e.2, he⟩
    change (!((keysOf s ⟨start, limit⟩).take n).contains e.1 && inRange ⟨start, limit⟩ e.1) =
      (inRange ⟨nextStart (keysOf s ⟨start, limit⟩) start n, limit⟩ e.1 &&
        !((keysOf s ⟨start, limit⟩).take n).contains e.1)
    by_cases hm : e.1 ∈ (keysOf s ⟨start, limit⟩).take n
    · simp [hm]
    · rw [round_range s start limit n hd e.1 hk hm]
      simp [hm, Bool.and_comm]

theorem round_distinct (s : Store) (start limit : Option Bytes) (n : Nat) (hd : Distinct s) :
    Distinct (batchRound s start limit n).1 := by
  unfold batchRound Distinct
  exact List.Pairwise.filter _ hd

/-- **batch_remove_exact.**  With a positive batch size, `BatchRemove` over `[start, limit)` leaves exactly
the keys outside the range (with their values) and reports the number of keys that were in it — however
many rounds that takes (enough fuel: one round more than there are keys in the range). -/
theorem batch_remove_exact (limit : Option Bytes) (n : Nat) (hn : 0 < n) :
    ∀ (fuel : Nat) (s : Store) (start : Option Bytes), Distinct s → cnt s ⟨start, limit⟩ < fuel →
      batchRemove fuel s start limit n =
        (s.filter (fun e => !inRange ⟨start, limit⟩ e.1), cnt s ⟨start, limit⟩) := by
  intro fuel
  induction fuel with
  | zero => intro s start _ h; omega
  | succ fuel ih =>
    intro s start hd hc
    unfold batchRemove
    simp only
    have hcount := round_count s start limit n hd
    by_cases h0 : (batchRound s start limit n).2.2 = 0
    · simp only [h0, if_true]
      -- nothing in the range
      have hk0 : keysOf s ⟨start, limit⟩ = [] := by
        have : ((keysOf s ⟨start, limit⟩).take n).length = 0 := h0
        rw [List.length_take] at this
        have : (keysOf s ⟨start, limit⟩).length = 0 := by omega
        exact List.eq_nil_of_length_eq_zero this
      have hnone : ∀ e ∈ s, inRange ⟨start, limit⟩ e.1 = false := by
        intro e he
        cases hr : inRange ⟨start, limit⟩ e.1 with
        | false => rfl
        | true =>
          have : e.1 ∈ keysOf s ⟨start, limit⟩ := (mem_keysOf s _ e.1).mpr ⟨⟨e.2, he⟩, hr⟩
          rw [hk0] at this; cases this
      have h1 : s.filter (fun e => !inRange ⟨start, limit⟩ e.1) = s := by
        apply List.filter_eq_self.mpr
        intro e he; rw [hnone e he]; rfl
      have h2 : cnt s ⟨start, limit⟩ = 0 := by
        unfold cnt
        rw [List.length_eq_zero_iff]
        apply List.filter_eq_nil_iff.mpr
        intro e he; rw [hnone e he]; simp
      rw [h1, h2]
    · simp only [h0, if_false]
      have hlt : cnt (batchRound s start limit n).1 ⟨(batchRound s start limit n).2.1, limit⟩ < fuel := by omega
      rw [ih _ _ (round_distinct s start limit n hd) hlt]
      rw [round_outside s start limit n hd, hcount]


theorem cnt_le_length (s : Store) (r : Range) : cnt s r ≤ s.length := List.length_filter_le _ _

/-- the fuel the driver gives (`length + 1`) is enough -/
theorem batch_remove_exact_driver (s : Store) (start limit : Option Bytes) (n : Nat) (hn : 0 < n) (hd : Distinct s) :
    batchRemove (s.length + 1) s start limit n =
      (s.filter (fun e => !inRange ⟨start, limit⟩ e.1), cnt s ⟨start, limit⟩) :=
  batch_remove_exact limit n hn _ s start hd (Nat.lt_succ_of_le (cnt_le_length s _))

/-- ✦ `batch_remove_exact` read key by key: a key in the range is gone, every other key keeps its value -/
theorem batch_remove_lookup (s : Store) (start limit : Option Bytes) (n : Nat) (hn : 0 < n) (hd : Distinct s) (k : Bytes) :
    lookup k (batchRemove (s.length + 1) s start limit n).1 =
      if inRange ⟨start, limit⟩ k then none else lookup k s := by
  rw [batch_remove_exact_driver s start limit n hn hd]
  simp only
  rw [lookup_filter_key (fun k => !inRange ⟨start, limit⟩ k) k s]
  cases inRange ⟨start, limit⟩ k <;> simp

/-- a batch size of zero removes nothing (the first key already "does not fit") -/
theorem batch_remove_zero (fuel : Nat) (s : Store) (start limit : Option Bytes) :
    batchRemove fuel s start limit 0 = (s, 0) := by
  cases fuel with
  | zero => rfl
  | succ f => simp [batchRemove, batchRound]

/-- the stores the model reaches are maps: every operation keeps the keys distinct -/
theorem distinct_filter (s : Store) (p : Bytes × Bytes → Bool) (hd : Distinct s) : Distinct (s.filter p) :=
  List.Pairwise.filter _ hd

theorem distinct_delete (s : Store) (k : Bytes) (hd : Distinct s) : Distinct (delete s k) :=
  distinct_filter s _ hd

theorem distinct_put (s : Store) (k v : Bytes) (hd : Distinct s) : Distinct (put s k v) := by
  unfold put Distinct
  rw [List.pairwise_append]
  refine ⟨List.Pairwise.filter _ hd, List.pairwise_singleton _ _, ?_⟩
  intro a ha b hb
  rw [List.mem_singleton] at hb
  subst hb
  simpa using (List.mem_filter.mp ha).2

theorem distinct_batchRemove (s : Store) (start limit : Option Bytes) (n : Nat) (hn : 0 < n) (hd : Distinct s) :
    Distinct (batchRemove (s.length + 1) s start limit n).1 := by
  rw [batch_remove_exact_driver s start limit n hn hd]
  exact distinct_filter s _ hd

/-- a three-round removal: five keys in the range, batch size two -/
example : batchRemove 7 [([1], [0]), ([5], [0]), ([2], [0]), ([9], [0]), ([3], [0]), ([4], [0]), ([6], [0])]
    (some [2]) (some [7]) 2 = ([([1], [0]), ([9], [0])], 5) := by decide


/-- ✦ facts of the current source: `Remove` and `Iter` refuse a closed prefix storage; pins. -/
theorem facts_ok :
    Gen.C25.extractErrors = [] ∧ Gen.C25.removeRefusesClosed = true ∧ Gen.C25.iterRefusesClosed = true ∧
    Gen.C25.pins = Pins.C25 := by
  refine ⟨by decide, by decide, by decide, by decide⟩

example : inRange (bytesPrefix [1, 255]) [1, 255, 0] = true ∧ inRange (bytesPrefix [1, 255]) [2] = false ∧
    prefixLimit [255, 255] = none ∧ prefixLimit [1, 255] = some [2] := by decide

end Mitum.C25
