package main

func init() { register("C01", genC01) }

// C01: the model transcribes base.FindMajority and base.FindVoteResult by
// hand; the tie is the hash of their normalised source (comments and
// formatting do not count) plus the correspondence runs.
func genC01(o *Out) {
	f, err := load("base/vote.go")
	if err != nil {
		o.errf("base/vote.go: %v", err)
		return
	}
	o.pin(f, "", "FindMajority")
	o.pin(f, "", "FindVoteResult")
}
