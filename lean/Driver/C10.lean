import Driver.C17
namespace Mitum.Driver
open Mitum

/-- the same block line as C17; candidate (`c:`) and policy (`p:`) operations do not touch the suffrage
state of the block they are in and are left out of the suffrage model -/
def stepC10 (ts : List String) : String :=
  stepC17 (ts.filter (fun t => !(t.startsWith "c:" || t.startsWith "p:")))
end Mitum.Driver
