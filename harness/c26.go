package main

import (
	"fmt"
	"sort"
	"strings"

	"github.com/alicebob/miniredis/v2"
	"github.com/redis/go-redis/v9"
	"github.com/spikeekips/mitum/base"
	leveldbstorage "github.com/spikeekips/mitum/storage/leveldb"
	"github.com/spikeekips/mitum/util"
)

func init() { register("C26", runC26) }

// every read of the permanent database itself (not through the Center's temps), in one canonical string
func (d *c19db) permReads(keys []string, maxHeight, maxSuf int, opIDs []string) string {
	var out []string
	var ss []string
	for _, k := range append(append([]string{}, keys...), "suffrage", "network_policy") {
		st, found, err := d.perm.State(k)
		switch {
		case err != nil:
			ss = append(ss, "err")
		case !found:
			ss = append(ss, "-")
		default:
			ss = append(ss, fmt.Sprintf("%s@%d", d.valueID[st.Hash().String()], st.Height()))
		}
	}
	out = append(out, "S:"+strings.Join(ss, ","))
	var ms []string
	for h := 0; h <= maxHeight+1; h++ {
		m, found, err := d.perm.BlockMap(base.Height(int64(h)))
		switch {
		case err != nil:
			ms = append(ms, "err")
		case !found:
			ms = append(ms, "-")
		default:
			ms = append(ms, d.mapIDs[m.Manifest().Hash().String()])
		}
	}
	out = append(out, "M:"+strings.Join(ms, ","))
	lm := "-"
	if m, found, err := d.perm.LastBlockMap(); err != nil {
		lm = "err"
	} else if found {
		lm = d.mapIDs[m.Manifest().Hash().String()]
	}
	out = append(out, "LM:"+lm)
	var ps, pbs []string
	for sh := 0; sh <= maxSuf+2; sh++ {
		ps = append(ps, d.proofName(d.perm.SuffrageProof(base.Height(int64(sh)))))
	}
	for h := 0; h <= maxHeight+1; h++ {
		pbs = append(pbs, d.proofName(d.perm.SuffrageProofByBlockHeight(base.Height(int64(h)))))
	}
	out = append(out, "P:"+strings.Join(ps, ","), "PB:"+strings.Join(pbs, ","), "LP:"+d.proofName(d.perm.LastSuffrageProof()))
	pol := "-"
	if p := d.perm.LastNetworkPolicy(); p != nil {
		pol = d.polID[fmt.Sprint(p.MaxOperationsInProposal())]
	}
	out = append(out, "POL:"+pol)
	var os []string
	for _, o := range opIDs {
		h := d.opHash(o)
		a, _ := d.perm.ExistsInStateOperation(h)
		b, _ := d.perm.ExistsKnownOperation(h)
		os = append(os, b01(a)+b01(b))
	}
	out = append(out, "O:"+strings.Join(os, ","))
	return strings.Join(out, " ")
}

func runC26(c *Ctx) error {
	env, err := c19newEnv()
	if err != nil {
		return err
	}
	mr, err := miniredis.Run()
	if err != nil {
		// no loopback sockets here: nothing can be decided about the Redis side; never an alarm
		c.Note("miniredis could not listen on loopback (" + err.Error() + "): the Redis-backed store was not exercised in this run")
		c.Count("redis", "unavailable")
		return nil
	}
	defer mr.Close()
	opt := &redis.Options{Network: "tcp", Addr: mr.Addr()}
	c.Count("redis", "miniredis-in-process")
	n := 30
	if c.Thorough() {
		n = 800
	}
	smallKeys := []string{"ka", "kb", "kc", "kd"}
	bigKeys := append([]string{}, smallKeys...)
	for j := 0; j < 360; j++ {
		bigKeys = append(bigKeys, fmt.Sprintf("x%03d", j))
	}
	for i := 0; i < n; i++ {
		// every tenth history has blocks of more records than one batch of the leveldb merge (333)
		keys := smallKeys
		big := i%10 == 3
		if big {
			keys = bigKeys
			c.Count("chains", "big-blocks")
		}
		mapIDs, proofID, valueID, polID, ops := map[string]string{}, map[string]string{}, map[string]string{}, map[string]string{}, map[string]util.Hash{}
		d := &c19db{env: env, st: leveldbstorage.NewMemStorage(), permst: leveldbstorage.NewMemStorage(),
			mapIDs: mapIDs, proofID: proofID, valueID: valueID, polID: polID, ops: ops, stcache: (i % 2) * 100}
		r := &c19db{env: env, st: leveldbstorage.NewMemStorage(), redis: opt, prefix: util.UUID().String(),
			mapIDs: mapIDs, proofID: proofID, valueID: valueID, polID: polID, ops: ops, stcache: (i % 2) * 100}
		if err := d.open(); err != nil {
			return err
		}
		if err := r.open(); err != nil {
			return fmt.Errorf("open redis-backed database: %w", err)
		}
		d.mirror = r
		var toks []string
		next, sufH, vcount, ocount, pcount := 0, -1, 0, 0, 0
		opIDs := []string{"oX"}
		nsteps := 3 + c.Intn(12)
		long := i%6 == 5 // chains that pass height 10 (and, in the thorough tier, now and then height 100)
		if long {
			nsteps = 24 + c.Intn(8)
			if c.Thorough() && i%60 == 59 {
				nsteps = 160
			}
			c.Count("chains", "long")
		}
		for st := 0; st < nsteps; st++ {
			var tok string
			switch k := c.Intn(10); {
			case k < 6 || next == 0 || (long && k < 8 && st%3 != 0):
				b := &c19block{Height: next, States: map[string]string{}, SufH: -1}
				for _, key := range keys {
					if c.Chance(1, 3) || (big && len(key) == 4) {
						vcount++
						b.States[key] = fmt.Sprintf("v%d", vcount)
					}
				}
				if next == 0 || c.Chance(1, 3) {
					sufH++
					b.SufH = sufH
				}
				if c.Chance(1, 4) {
					pcount++
					b.Policy = fmt.Sprintf("q%d", pcount)
				}
				for j := 0; j < c.Intn(3); j++ {
					ocount++
					id := fmt.Sprintf("o%d", ocount)
					b.Known = append(b.Known, id)
					opIDs = append(opIDs, id)
				}
				if len(b.States) > 0 {
					for j := 0; j < c.Intn(3); j++ {
						ocount++
						id := fmt.Sprintf("o%d", ocount)
						b.InState = append(b.InState, id)
						opIDs = append(opIDs, id)
					}
				}
				if err := d.write(b); err != nil {
					return fmt.Errorf("write block %d: %w", next, err)
				}
				tok = b.tok()
				next++
			case k < 9:
				if err := d.center.MergeAllPermanent(); err != nil {
					return err
				}
				if err := r.center.MergeAllPermanent(); err != nil {
					return fmt.Errorf("merge into the redis-backed database: %w", err)
				}
				tok = "MERGE"
			default: // both are opened anew on their storage
				if err := d.open(); err != nil {
					return err
				}
				if err := r.open(); err != nil {
					return fmt.Errorf("reopen redis-backed database: %w", err)
				}
				d.mirror = r
				tok = "REOPEN"
			}
			toks = append(toks, tok)
			c.Count("step", strings.SplitN(tok, ":", 2)[0])
			in := map[string]interface{}{"history": append([]string{}, toks...)}
			// the permanent databases themselves
			pl, pr := d.permReads(keys, next, sufH, opIDs), r.permReads(keys, next, sufH, opIDs)
			if pl != pr {
				c.Violation("C26:permanent-reads-differ", fmt.Sprintf("history %s: leveldb-backed %q, redis-backed %q", strings.Join(toks, " "), pl, pr), in)
			}
			// and through the Center (objects and raw bytes; both hold the very same objects)
			cl, cr := d.reads(keys, next, sufH, opIDs), r.reads(keys, next, sufH, opIDs)
			if cl != cr {
				c.Violation("C26:center-reads-differ", fmt.Sprintf("history %s: over leveldb %q, over redis %q", strings.Join(toks, " "), cl, cr), in)
			}
			bl, br := d.byteReads(keys, next, sufH), r.byteReads(keys, next, sufH)
			var names []string
			for name := range bl {
				names = append(names, name)
			}
			sort.Strings(names)
			for _, name := range names {
				c.Count("bytes-read", strings.SplitN(name, "(", 2)[0])
				if bl[name] != br[name] {
					c.Violation("C26:bytes-differ:"+strings.SplitN(name, "(", 2)[0], fmt.Sprintf("history %s: %s over leveldb %s, over redis %s", strings.Join(toks, " "), name, bl[name], br[name]), in)
				}
			}
			c.Eval(2 + len(names))
			// the leveldb-backed side is also what the C19 model predicts
			c.Case(fmt.Sprintf("hist K:%s O:%s ; %s", strings.Join(keys, ","), strings.Join(opIDs, ","), strings.Join(c26strip(toks), " ")), cr)
		}
		c.Nontrivial(strings.Join(toks, " "))
		if i%10 == 0 {
			c.Sample(map[string]interface{}{"history": toks})
		}
	}
	return nil
}

// REOPEN is not a step of the C19 model (reads do not change by reopening: C20)
func c26strip(toks []string) []string {
	var out []string
	for _, t := range toks {
		if t != "REOPEN" {
			out = append(out, t)
		}
	}
	return out
}
