module verif/extract

go 1.22.0
