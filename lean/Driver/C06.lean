import MitumModel.Common
import MitumModel.Model.LastPoint
namespace Mitum.Driver
open Mitum Mitum.LastPoint

/-- `z` or `h,r,acc,maj,sc` -/
def parseLP (s : String) : Option (Option LP) :=
  if s = "z" then some none
  else match (s.splitOn ",").mapM String.toNat? with
    | some [h, r, a, m, sc] => some (some { pt := { h := h, r := r, acc := a == 1 }, maj := m == 1, sc := sc == 1 })
    | _ => none

def stepC06 (ts : List String) : String :=
  match ts with
  | ["before", l, p] =>
    match parseLP l, parseLP p with
    | some l, some (some p) => boolStr (before l p.pt p.sc)
    | _, _ => "bad-op"
  | ["isnew", l, p] =>
    match parseLP l, parseLP p with
    | some l, some (some p) => boolStr (isNewVoteproofByPoint l p.pt p.maj p.sc)
    | _, _ => "bad-op"
  | "seq" :: ns =>
    match ns.mapM parseLP with
    | some ns =>
      let step := fun (acc : Option LP × String) (n : Option LP) =>
        match n with
        | none => acc
        | some n => let r := setLastPoint acc.1 n; (r.1, acc.2 ++ boolStr r.2)
      (ns.foldl step (none, "")).2
    | none => "bad-op"
  | _ => "bad-op"

end Mitum.Driver
