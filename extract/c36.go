package main

import (
	"go/ast"
	"strings"
)

func init() { register("C36", genC36) }

func genC36(o *Out) {
	f := o.pinFile("launch/ratelimit.go", "NewRateLimiter", "RateLimiter.Update", "RateLimiter.Allow", "RateLimitHandler.Func", "RateLimitHandler.allow",
		"RateLimitHandler.rateLimiterFunc", "RateLimiterRules.Rule", "RateLimiterRules.rule", "RateLimiterRules.ruleByNode",
		"RateLimiterRuleMap.Rule", "NetRateLimiterRuleSet.rule", "NodeRateLimiterRuleSet.Rule", "SuffrageRateLimiterRuleSet.Rule",
		"ClientIDRateLimiterRuleSet.Rule", "addrPool.rateLimiter", "addrPool.addNode")
	if f == nil {
		return
	}
	// order of the ruleset-type strings returned by rule()
	var order []string
	if fd := f.Func("RateLimiterRules", "rule"); fd != nil {
		ast.Inspect(fd.Body, func(n ast.Node) bool {
			rs, ok := n.(*ast.ReturnStmt)
			if !ok || len(rs.Results) != 5 {
				return true
			}
			t := strings.Trim(f.Src(rs.Results[2]), `"`)
			upd := strings.TrimSpace(f.Src(rs.Results[4]))
			if upd == "true" && (len(order) == 0 || order[len(order)-1] != t) {
				order = append(order, t)
			}
			return true
		})
	}
	o.strList("ruleOrder", order)
	// RateLimiter.Update: each of the three kinds of rule sets both fields
	if fd := f.Func("RateLimiter", "Update"); fd != nil {
		src := normSpace(f.Src(fd.Body))
		o.boolean("updateSetsBothFields", strings.Contains(src, "case limit == rate.Inf: r.nolimit = true r.Limiter = nil") &&
			strings.Contains(src, "case limit == 0, burst < 1: r.nolimit = false r.Limiter = nil") &&
			strings.Contains(src, "default: r.nolimit = false r.Limiter = rate.NewLimiter(limit, burst)") &&
			strings.Contains(src, "if r.Limiter == nil || (r.Limiter.Limit() != limit || r.Limiter.Burst() != burst) {"))
	} else {
		o.errf("RateLimiter.Update not found")
	}
	if fd := f.Func("RateLimiter", "Allow"); fd != nil {
		o.boolean("allowFollowsFlagWithoutLimiter", strings.Contains(normSpace(f.Src(fd.Body)), "if r.Limiter == nil { return r.nolimit } return r.Limiter.Allow()"))
	} else {
		o.errf("RateLimiter.Allow not found")
	}
	// ruleByNode: membership is consulted before the state hash
	if fd := f.Func("RateLimiterRules", "ruleByNode"); fd != nil {
		src := normSpace(f.Src(fd.Body))
		i1 := strings.Index(src, "case !exists(node):")
		i2 := strings.Index(src, "case st.String() != l.Checksum():")
		o.boolean("membershipBeforeHash", i1 >= 0 && i2 > i1 && strings.Contains(src[i2:], "default: return l, false, true"))
	} else {
		o.errf("RateLimiterRules.ruleByNode not found")
	}
}
