import MitumModel.Model.LockMap
import MitumModel.Gen.C32
import MitumModel.Pins
/-!
C32  Concurrent maps and locked values behave like a sequential map.
-/
namespace Mitum.C32
open Mitum.LockMap

/-! ### the map inside one lock -/

theorem lookup_erase (m : M) (k k' : Key) :
    lookup (erase m k) k' = if k' = k then none else lookup m k' := by
  induction m with
  | nil => simp [erase, lookup]
  | cons a r ih =>
    obtain ⟨a, v⟩ := a
    by_cases h : a = k
    · subst h
      simp only [erase, if_true, lookup, ih]
      by_cases h2 : k' = a
      · simp [h2]
      · have : ¬ a = k' := fun e => h2 e.symm
        simp [h2, this]
    · simp only [erase, h, if_false, lookup, ih]
      by_cases h2 : a = k'
      · subst h2; simp [h]
      · simp [h2]

theorem lookup_put (m : M) (k k' : Key) (c : Option Val) :
    lookup (put m k c) k' = if k' = k then c else lookup m k' := by
  cases c with
  | none => simp [put, lookup_erase]
  | some v =>
    simp only [put, lookup, lookup_erase]
    by_cases h : k = k'
    · subst h; simp
    · have : ¬ k' = k := fun e => h e.symm
      simp [h, this]

/-- every operation of an open `SingleLockedMap` is the sequential-map operation -/
theorem single_refines (m : M) (op : Op) :
    ∃ m', (singleOp (some m) op).1 = some m' ∧
      lookup m' = (specOp (lookup m) op).1 ∧ (singleOp (some m) op).2 = (specOp (lookup m) op).2 := by
  refine ⟨put m op.key (cellOp (lookup m op.key) op).1, rfl, ?_, rfl⟩
  funext k'
  simp [specOp, lookup_put]

/-- a closed `SingleLockedMap` stays closed and never stores anything -/
theorem single_closed (op : Op) : (singleOp none op).1 = none := rfl

/-! ### linearisation of the sharded map: the leaf step is the only effect -/

structure CInv (c : CSt) : Prop where
  open_ : c.sh.closed = false
  noClosedLeaf : ∀ i, c.sh.leaves i ≠ some none
  pend_ok : ∀ op i, Pend.atLeaf op i ∈ c.pend → i = op.key % c.sh.n ∧ (c.sh.leaves i).isSome = true

theorem abs_leafStep (s : Sh) (op : Op) (m : M) (h : s.leaves (op.key % s.n) = some (some m)) :
    abs (leafStep s (op.key % s.n) op).1 =
      fun k => if k = op.key then (cellOp (abs s op.key) op).1 else abs s k := by
  funext k'
  have habs : abs s op.key = lookup m op.key := by simp [abs, h]
  simp only [leafStep, h, abs, upd, habs]
  by_cases hk : k' % s.n = op.key % s.n
  · simp only [hk, if_true, lookup_put]
    by_cases h2 : k' = op.key
    · simp [h2]
    · simp [h2, h]
  · have : ¬ k' = op.key := fun e => hk (by rw [e])
    simp [hk, this]

theorem res_leafStep (s : Sh) (op : Op) (m : M) (h : s.leaves (op.key % s.n) = some (some m)) :
    (leafStep s (op.key % s.n) op).2.1 = (cellOp (abs s op.key) op).2.1 := by
  have habs : abs s op.key = lookup m op.key := by simp [abs, h]
  simp [leafStep, h, habs]

theorem abs_acquire (s : Sh) (op : Op) : abs (acquire s op).1 = abs s := by
  unfold acquire
  by_cases hc : s.closed = true
  · simp [hc]
  · simp only [hc]
    cases hl : s.leaves (op.key % s.n) with
    | some x => simp
    | none =>
      by_cases hu : usesNew op = true
      · simp only [hu, if_true]
        funext k
        by_cases hk : k % s.n = op.key % s.n
        · simp [abs, upd, hk, hl, lookup]
        · simp [abs, upd, hk]
      · simp [hu]

theorem cellOp_none_unchanged (op : Op) (h : usesNew op = false) : (cellOp none op).1 = none := by
  cases op <;> simp_all [usesNew, cellOp]
  split <;> rfl

/-- One event either linearises one operation — whose result and effect are
those of the sequential map at that moment — or leaves the abstract map as it
was. -/
theorem lin_step (c : CSt) (ev : Ev) (h : CInv c) (hk : ev.isKeyOp = true) :
    match emitted c ev with
    | some (op, r) => specOp (abs c.sh) op = (abs (cstep c ev).sh, r)
    | none => abs (cstep c ev).sh = abs c.sh := by
  cases ev with
  | empty => simp [Ev.isKeyOp] at hk
  | close => simp [Ev.isKeyOp] at hk
  | add j =>
    simp only [emitted, cstep]
    split <;> rfl
  | call op =>
    simp only [emitted, cstep]
    have ha := abs_acquire c.sh op
    cases hq : acquire c.sh op with
    | mk s' a =>
      rw [hq] at ha
      cases a with
      | at_ i => simpa using ha
      | done r =>
        simp only
        -- the key's leaf does not exist: the sequential map has no such key
        unfold acquire at hq
        simp only [h.open_, Bool.false_eq_true, if_false] at hq
        cases hl : c.sh.leaves (op.key % c.sh.n) with
        | some x => simp [hl] at hq
        | none =>
          simp only [hl] at hq
          by_cases hu : usesNew op = true
          · simp [hu] at hq
          · simp only [hu, Bool.false_eq_true, if_false, Prod.mk.injEq, Acq.done.injEq] at hq
            obtain ⟨hs, hr⟩ := hq
            have habs : abs c.sh op.key = none := by simp [abs, hl]
            have hun := cellOp_none_unchanged op (by simpa using hu)
            simp only [specOp, habs, hun, ← hr, ← hs, Prod.mk.injEq, and_true]
            funext k
            by_cases hk2 : k = op.key
            · simp [hk2, habs]
            · simp [hk2]
  | leaf j =>
    simp only [emitted, cstep]
    cases hp : c.pend[j]? with
    | none => simp
    | some p =>
      cases p with
      | needAdd d r => simp
      | done r => simp
      | atLeaf op i =>
        have hmem : Pend.atLeaf op i ∈ c.pend := List.mem_of_getElem? hp
        obtain ⟨hi, hsome⟩ := h.pend_ok op i hmem
        subst hi
        cases hl : c.sh.leaves (op.key % c.sh.n) with
        | none => simp [hl] at hsome
        | some x =>
          cases x with
          | none => exact absurd hl (h.noClosedLeaf _)
          | some m =>
            simp only [specOp, abs_leafStep c.sh op m hl, res_leafStep c.sh op m hl]

theorem cinv_step (c : CSt) (ev : Ev) (h : CInv c) (hk : ev.isKeyOp = true) : CInv (cstep c ev) := by
  cases ev with
  | empty => simp [Ev.isKeyOp] at hk
  | close => simp [Ev.isKeyOp] at hk
  | add j =>
    simp only [cstep]
    cases hp : c.pend[j]? with
    | none => simpa using h
    | some p =>
      cases p with
      | atLeaf op i => simpa using h
      | done r => simpa using h
      | needAdd d r =>
        refine ⟨h.open_, h.noClosedLeaf, ?_⟩
        intro op i hm
        have := List.mem_or_eq_of_mem_set hm
        rcases this with hm | hm
        · exact h.pend_ok op i hm
        · cases hm
  | leaf j =>
    simp only [cstep]
    cases hp : c.pend[j]? with
    | none => simpa using h
    | some p =>
      cases p with
      | needAdd d r => simpa using h
      | done r => simpa using h
      | atLeaf op i =>
        have hmem : Pend.atLeaf op i ∈ c.pend := List.mem_of_getElem? hp
        obtain ⟨hi, hsome⟩ := h.pend_ok op i hmem
        have hls : (leafStep c.sh i op).1.closed = c.sh.closed ∧ (leafStep c.sh i op).1.n = c.sh.n ∧
            (∀ i', ((leafStep c.sh i op).1.leaves i').isSome = (c.sh.leaves i').isSome) ∧
            (∀ i', (leafStep c.sh i op).1.leaves i' ≠ some none) := by
          unfold leafStep
          cases hl : c.sh.leaves i with
          | none => simp [hl] at hsome
          | some x =>
            cases x with
            | none => exact absurd hl (h.noClosedLeaf _)
            | some m =>
              refine ⟨rfl, rfl, ?_, ?_⟩
              · intro i'; simp only [upd]; by_cases h' : i' = i <;> simp [h', hl]
              · intro i'; simp only [upd]; by_cases h' : i' = i
                · simp [h']
                · simp [h']; exact h.noClosedLeaf i'
        refine ⟨by rw [hls.1]; exact h.open_, hls.2.2.2, ?_⟩
        intro op' i' hm
        have := List.mem_or_eq_of_mem_set hm
        rcases this with hm | hm
        · have := h.pend_ok op' i' hm
          rw [hls.2.1, hls.2.2.1]; exact this
        · split at hm <;> cases hm
  | call op =>
    simp only [cstep]
    unfold acquire
    simp only [h.open_, Bool.false_eq_true, if_false]
    cases hl : c.sh.leaves (op.key % c.sh.n) with
    | some x =>
      refine ⟨h.open_, h.noClosedLeaf, ?_⟩
      intro op' i' hm
      simp only [List.mem_append, List.mem_singleton] at hm
      rcases hm with hm | hm
      · exact h.pend_ok op' i' hm
      · cases hm; simp [hl]
    | none =>
      by_cases hu : usesNew op = true
      · simp only [hu, if_true]
        refine ⟨by first | rfl | exact h.open_, ?_, ?_⟩
        · intro i; simp only [upd]
          by_cases h' : i = op.key % c.sh.n
          · simp [h']
          · simp [h']; exact h.noClosedLeaf i
        · intro op' i' hm
          simp only [List.mem_append, List.mem_singleton] at hm
          rcases hm with hm | hm
          · have := h.pend_ok op' i' hm
            refine ⟨this.1, ?_⟩
            simp only [upd]
            by_cases h' : i' = op.key % c.sh.n
            · simp [h']
            · simp [h', this.2]
          · cases hm; simp [upd]
      · simp only [hu, Bool.false_eq_true, if_false]
        refine ⟨h.open_, h.noClosedLeaf, ?_⟩
        intro op' i' hm
        simp only [List.mem_append, List.mem_singleton] at hm
        rcases hm with hm | hm
        · exact h.pend_ok op' i' hm
        · cases hm

/-- the operations in the order of their linearising events, with the results they return -/
def linTrace : CSt → List Ev → List (Op × Res)
  | _, [] => []
  | c, ev :: r => (emitted c ev).toList ++ linTrace (cstep c ev) r

/-- run the sequential map over a trace, checking every recorded result -/
def specReplay (sp : Key → Option Val) : List (Op × Res) → Option (Key → Option Val)
  | [] => some sp
  | (op, r) :: rest => if (specOp sp op).2 = r then specReplay (specOp sp op).1 rest else none

/-- **key_ops_linearizable.**  Whatever the interleaving of the lock-protected
steps of any number of concurrent key operations on a sharded map, the
operations — taken in the order of the one step each performs under its leaf's
lock (or, when the key's leaf does not exist, of its look-up under the map
lock), a step that lies between the operation's call and its return — return
exactly what a sequential map returns, and the sharded map ends as that
sequential map. -/
theorem key_ops_linearizable (c : CSt) (evs : List Ev) (h : CInv c)
    (hk : ∀ ev ∈ evs, ev.isKeyOp = true) :
    specReplay (abs c.sh) (linTrace c evs) = some (abs (crun c evs).sh) := by
  induction evs generalizing c with
  | nil => simp [linTrace, specReplay, crun]
  | cons ev r ih =>
    have hev := hk ev (by simp)
    have hstep := lin_step c ev h hev
    have hinv := cinv_step c ev h hev
    have ih' := ih (cstep c ev) hinv (fun e he => hk e (by simp [he]))
    simp only [linTrace, crun, List.foldl_cons]
    cases he : emitted c ev with
    | none =>
      rw [he] at hstep
      simp only [Option.toList, List.nil_append]
      rw [← hstep]; exact ih'
    | some x =>
      obtain ⟨op, res⟩ := x
      rw [he] at hstep
      simp only [Option.toList, List.cons_append, List.nil_append, specReplay, hstep, if_true]
      exact ih'

theorem cinv_init (n : Nat) : CInv { sh := { n := n } } :=
  ⟨rfl, by intro i; simp, by intro op i hm; simp at hm⟩

/-! ### `Len()` at quiescence -/

def _root_.Mitum.LockMap.Pend.delta : Pend → Int
  | .needAdd d _ => d
  | _ => 0

def pendSum (p : List Pend) : Int := (p.map Pend.delta).sum

def total (s : Sh) : Nat := ((List.range s.n).map (fun i => (leafItems (s.leaves i)).length)).sum

def keys (m : M) : List Key := m.map Prod.fst

theorem mem_keys_erase (m : M) (k k' : Key) : k' ∈ keys (erase m k) ↔ k' ∈ keys m ∧ k' ≠ k := by
  induction m with
  | nil => simp [erase, keys]
  | cons a r ih =>
    obtain ⟨a, v⟩ := a
    simp only [keys] at ih
    by_cases h : a = k
    · subst h
      simp only [erase, if_true, keys, List.map_cons, List.mem_cons, ih]
      constructor
      · rintro ⟨h1, h2⟩; exact ⟨Or.inr h1, h2⟩
      · rintro ⟨h1 | h1, h2⟩
        · exact absurd h1 h2
        · exact ⟨h1, h2⟩
    · simp only [erase, h, if_false, keys, List.map_cons, List.mem_cons, ih]
      constructor
      · rintro (h1 | ⟨h1, h2⟩)
        · exact ⟨Or.inl h1, by rw [h1]; exact h⟩
        · exact ⟨Or.inr h1, h2⟩
      · rintro ⟨h1 | h1, h2⟩
        · exact Or.inl h1
        · exact Or.inr ⟨h1, h2⟩

theorem nodup_erase (m : M) (k : Key) (h : (keys m).Nodup) : (keys (erase m k)).Nodup := by
  induction m with
  | nil => simp [erase, keys]
  | cons a r ih =>
    obtain ⟨a, v⟩ := a
    simp only [keys, List.map_cons, List.nodup_cons] at h
    by_cases h2 : a = k
    · simp only [erase, h2, if_true]; exact ih h.2
    · simp only [erase, h2, if_false, keys, List.map_cons, List.nodup_cons]
      refine ⟨?_, ih h.2⟩
      intro hm
      have := (mem_keys_erase r k a).mp hm
      exact h.1 this.1

theorem lookup_isSome_iff (m : M) (k : Key) : (lookup m k).isSome = true ↔ k ∈ keys m := by
  induction m with
  | nil => simp [lookup, keys]
  | cons a r ih =>
    obtain ⟨a, v⟩ := a
    simp only [keys] at ih
    by_cases h : a = k
    · simp [lookup, keys, h]
    · have : ¬ k = a := fun e => h e.symm
      simp [lookup, keys, h, this, ih]

theorem length_erase (m : M) (k : Key) (h : (keys m).Nodup) :
    (erase m k).length + (if (lookup m k).isSome then 1 else 0) = m.length := by
  induction m with
  | nil => simp [erase, lookup]
  | cons a r ih =>
    obtain ⟨a, v⟩ := a
    simp only [keys, List.map_cons, List.nodup_cons] at h
    by_cases h2 : a = k
    · subst h2
      have hn : (lookup r a).isSome = false := by
        cases hq : (lookup r a).isSome with
        | false => rfl
        | true => exact absurd ((lookup_isSome_iff r a).mp hq) h.1
      have := ih h.2
      simp only [erase, if_true, lookup, Option.isSome_some, List.length_cons]
      rw [hn] at this; simp at this; omega
    · simp only [erase, h2, if_false, lookup, List.length_cons]
      have := ih h.2
      omega

def b2i (b : Bool) : Int := if b then 1 else 0

theorem length_put (m : M) (k : Key) (c : Option Val) (h : (keys m).Nodup) :
    ((put m k c).length : Int) = (m.length : Int) + b2i c.isSome - b2i (lookup m k).isSome := by
  have := length_erase m k h
  cases c with
  | none =>
    simp only [put, b2i, Option.isSome_none]
    cases hq : (lookup m k).isSome <;> simp [hq] at this ⊢ <;> omega
  | some v =>
    simp only [put, b2i, Option.isSome_some, List.length_cons]
    cases hq : (lookup m k).isSome <;> simp [hq] at this ⊢ <;> omega

theorem nodup_put (m : M) (k : Key) (c : Option Val) (h : (keys m).Nodup) : (keys (put m k c)).Nodup := by
  cases c with
  | none => exact nodup_erase m k h
  | some v =>
    simp only [put, keys, List.map_cons, List.nodup_cons]
    refine ⟨?_, nodup_erase m k h⟩
    intro hm
    exact ((mem_keys_erase m k k).mp hm).2 rfl

/-- the pending change of `length` is exactly the change of the number of keys -/
theorem cellOp_delta (c : Option Val) (op : Op) :
    (cellOp c op).2.2 = b2i (cellOp c op).1.isSome - b2i c.isSome := by
  cases op with
  | exists_ k => simp [cellOp]
  | value k => simp [cellOp]
  | setValue k v => cases c <;> simp [cellOp, b2i]
  | removeValue k => cases c <;> simp [cellOp, b2i]
  | get k f => simp [cellOp]
  | getOrCreate k cr f =>
    cases c with
    | some v => simp [cellOp]
    | none => cases cr <;> simp [cellOp, b2i]
  | set k f =>
    simp only [cellOp]
    cases f c <;> cases c <;> simp [b2i]
  | remove k f =>
    simp only [cellOp]
    cases f c <;> cases c <;> simp [b2i]
  | setOrRemove k f =>
    simp only [cellOp]
    cases f c <;> cases c <;> simp [b2i]

theorem sum_range_upd (f : Nat → Nat) (n i x : Nat) (h : i < n) :
    ((List.range n).map (upd f i x)).sum + f i = ((List.range n).map f).sum + x := by
  induction n with
  | zero => omega
  | succ n ih =>
    simp only [List.range_succ, List.map_append, List.sum_append, List.map_cons, List.map_nil,
      List.sum_cons, List.sum_nil]
    by_cases hi : i = n
    · subst hi
      have : (List.range i).map (upd f i x) = (List.range i).map f := by
        apply List.map_congr_left
        intro a ha
        have : a < i := List.mem_range.mp ha
        simp [upd]; omega
      rw [this]; simp [upd]; omega
    · have := ih (by omega)
      have hn : upd f i x n = f n := by simp [upd]; omega
      rw [hn]; omega

structure LInv (c : CSt) : Prop where
  cinv : CInv c
  npos : 0 < c.sh.n
  wf : ∀ i m, c.sh.leaves i = some (some m) → (keys m).Nodup
  len : c.sh.length + pendSum c.pend = (total c.sh : Int)

theorem pendSum_append (p : List Pend) (x : Pend) : pendSum (p ++ [x]) = pendSum p + x.delta := by
  simp [pendSum]

theorem pendSum_set (p : List Pend) (j : Nat) (x y : Pend) (h : p[j]? = some x) :
    pendSum (p.set j y) = pendSum p - x.delta + y.delta := by
  induction p generalizing j with
  | nil => simp at h
  | cons a r ih =>
    cases j with
    | zero => simp at h; subst h; simp [pendSum]; omega
    | succ j =>
      simp at h
      have := ih j h
      simp only [pendSum, List.set_cons_succ, List.map_cons, List.sum_cons] at this ⊢
      omega

theorem total_upd (s : Sh) (i : Nat) (m m' : M) (hi : i < s.n) (hl : s.leaves i = some (some m)) :
    (total { s with leaves := upd s.leaves i (some (some m')) } : Int) = (total s : Int) + m'.length - m.length := by
  have := sum_range_upd (fun j => (leafItems (s.leaves j)).length) s.n i m'.length hi
  have heq : (fun j => (leafItems (upd s.leaves i (some (some m')) j)).length) =
      upd (fun j => (leafItems (s.leaves j)).length) i m'.length := by
    funext j; simp only [upd]; by_cases h : j = i <;> simp [h, leafItems]
  have hfi : (leafItems (s.leaves i)).length = m.length := by simp [hl, leafItems]
  simp only [hfi] at this
  simp only [total, heq]
  omega

theorem linv_step (c : CSt) (ev : Ev) (h : LInv c) (hk : ev.isKeyOp = true) : LInv (cstep c ev) := by
  have hc := cinv_step c ev h.cinv hk
  cases ev with
  | empty => simp [Ev.isKeyOp] at hk
  | close => simp [Ev.isKeyOp] at hk
  | add j =>
    simp only [cstep] at hc ⊢
    cases hp : c.pend[j]? with
    | none => simpa [hp] using h
    | some p =>
      cases p with
      | atLeaf op i => simpa [hp] using h
      | done r => simpa [hp] using h
      | needAdd d r =>
        simp only [hp] at hc
        refine ⟨hc, h.npos, h.wf, ?_⟩
        have := pendSum_set c.pend j _ (Pend.done r) hp
        have hl := h.len
        simp only [addLen, this, Pend.delta, total] at hl ⊢
        omega
  | call op =>
    simp only [cstep] at hc ⊢
    unfold acquire at hc ⊢
    simp only [h.cinv.open_, Bool.false_eq_true, if_false] at hc ⊢
    cases hl : c.sh.leaves (op.key % c.sh.n) with
    | some x =>
      simp only [hl] at hc ⊢
      refine ⟨hc, h.npos, h.wf, ?_⟩
      rw [pendSum_append]; simpa [Pend.delta] using h.len
    | none =>
      simp only [hl] at hc ⊢
      by_cases hu : usesNew op = true
      · simp only [hu, if_true] at hc ⊢
        refine ⟨hc, h.npos, ?_, ?_⟩
        · intro i m hm
          simp only [upd] at hm
          by_cases h' : i = op.key % c.sh.n
          · simp [h'] at hm; subst hm; simp [keys]
          · simp [h'] at hm; exact h.wf i m hm
        · rw [pendSum_append]
          have ht : ∀ s' : Sh, s'.n = c.sh.n → s'.leaves = upd c.sh.leaves (op.key % c.sh.n) (some (some [])) →
              total s' = total c.sh := by
            intro s' hn hlv
            simp only [total, hn, hlv]
            congr 1
            apply List.map_congr_left
            intro a _
            simp only [upd]
            by_cases h' : a = op.key % c.sh.n
            · simp [h', hl, leafItems]
            · simp [h']
          show c.sh.length + (pendSum c.pend + (Pend.atLeaf op (op.key % c.sh.n)).delta) = (total _ : Int)
          rw [ht]
          · simpa [Pend.delta] using h.len
          · rfl
          · rfl
      · simp only [hu, Bool.false_eq_true, if_false] at hc ⊢
        refine ⟨hc, h.npos, h.wf, ?_⟩
        rw [pendSum_append]; simpa [Pend.delta] using h.len
  | leaf j =>
    simp only [cstep] at hc ⊢
    cases hp : c.pend[j]? with
    | none => simpa [hp] using h
    | some p =>
      cases p with
      | needAdd d r => simpa [hp] using h
      | done r => simpa [hp] using h
      | atLeaf op i =>
        simp only [hp] at hc
        have hmem : Pend.atLeaf op i ∈ c.pend := List.mem_of_getElem? hp
        obtain ⟨hi, hsome⟩ := h.cinv.pend_ok op i hmem
        have hlt : i < c.sh.n := by rw [hi]; exact Nat.mod_lt _ h.npos
        cases hl : c.sh.leaves i with
        | none => simp [hl] at hsome
        | some x =>
          cases x with
          | none => exact absurd hl (h.cinv.noClosedLeaf _)
          | some m =>
            have hnd := h.wf i m hl
            refine ⟨hc, ?_, ?_, ?_⟩
            · simp only [leafStep, hl]; exact h.npos
            · intro i' m' hm'
              simp only [leafStep, hl, upd] at hm'
              by_cases h' : i' = i
              · simp [h'] at hm'; subst hm'; exact nodup_put m _ _ hnd
              · simp [h'] at hm'; exact h.wf i' m' hm'
            · have hps := pendSum_set c.pend j _
                (if (leafStep c.sh i op).2.2 = 0 then Pend.done (leafStep c.sh i op).2.1
                  else Pend.needAdd (leafStep c.sh i op).2.2 (leafStep c.sh i op).2.1) hp
              have hd : (if (leafStep c.sh i op).2.2 = 0 then Pend.done (leafStep c.sh i op).2.1
                  else Pend.needAdd (leafStep c.sh i op).2.2 (leafStep c.sh i op).2.1).delta
                  = (leafStep c.sh i op).2.2 := by
                split
                · rename_i h0; simp [Pend.delta, h0]
                · simp [Pend.delta]
              rw [hps, hd]
              have hl2 := h.len
              have htu := total_upd c.sh i m (put m op.key (cellOp (lookup m op.key) op).1) hlt hl
              have hlp := length_put m op.key (cellOp (lookup m op.key) op).1 hnd
              have hdl := cellOp_delta (lookup m op.key) op
              simp only [leafStep, hl, Pend.delta] at htu ⊢
              omega

theorem linv_run (c : CSt) (evs : List Ev) (h : LInv c) (hk : ∀ ev ∈ evs, ev.isKeyOp = true) :
    LInv (crun c evs) := by
  induction evs generalizing c with
  | nil => exact h
  | cons ev r ih =>
    simp only [crun, List.foldl_cons]
    exact ih (cstep c ev) (linv_step c ev h (hk ev (by simp))) (fun e he => hk e (by simp [he]))

theorem pendSum_quiescent (p : List Pend) (h : p.all Pend.isDone = true) : pendSum p = 0 := by
  induction p with
  | nil => rfl
  | cons a r ih =>
    simp only [List.all_cons, Bool.and_eq_true] at h
    cases a <;> simp_all [Pend.isDone, pendSum, Pend.delta]

theorem linv_init (n : Nat) (h : 0 < n) : LInv { sh := { n := n } } := by
  refine ⟨cinv_init n, h, by intro i m hm; simp at hm, ?_⟩
  have hz : ∀ n : Nat, ((List.range n).map (fun _ => (0 : Nat))).sum = 0 := by
    intro n; induction n with
    | zero => rfl
    | succ n ih => simp [List.range_succ, ih]
  simp only [pendSum, total, leafItems]
  simp [hz]

theorem length_shItems (s : Sh) (h : s.closed = false) : (shItems s).length = total s := by
  simp [shItems, h, total, List.length_flatMap]

/-- **len_at_quiescence.**  After any interleaving of key operations, when none
is in flight any more, `Len()` is the number of entries `Map()` returns. -/
theorem len_at_quiescence (n : Nat) (hn : 0 < n) (evs : List Ev)
    (hk : ∀ ev ∈ evs, ev.isKeyOp = true) (hq : quiescent (crun { sh := { n := n } } evs) = true) :
    (crun { sh := { n := n } } evs).sh.length = ((shItems (crun { sh := { n := n } } evs).sh).length : Int) := by
  have h := linv_run _ evs (linv_init n hn) hk
  have hs := pendSum_quiescent _ hq
  have hl := h.len
  rw [length_shItems _ h.cinv.open_]
  omega

/-! ### what does not hold (witnesses, replayed on the real code by the harness) -/

/-- `Empty()` between an operation's leaf step and its `length` update: the map
is empty and quiescent, `Len()` is 1. -/
theorem len_after_empty_witness :
    let c := crun { sh := { n := 2 } } [.call (.setValue 0 7), .leaf 0, .empty, .add 0]
    quiescent c = true ∧ shItems c.sh = [] ∧ c.sh.length = 1 := by
  decide

theorem len_after_close_witness :
    let c := crun { sh := { n := 2 } } [.call (.setValue 0 7), .leaf 0, .close, .add 0]
    quiescent c = true ∧ shItems c.sh = [] ∧ c.sh.length = 1 := by
  decide

/-! ### Locked[T] -/

/-- an empty `Locked` holds the zero value -/
def LkInv (l : Lk) : Prop := l.isempty = true → l.value = 0

theorem lk_inv (l : Lk) (op : LOp) (h : LkInv l) : LkInv (lkOp l op).1 := by
  cases op with
  | value => exact h
  | mustValue => exact h
  | setValue v => simp [lkOp, LkInv]
  | emptyValue => simp [lkOp, LkInv]
  | get f => exact h
  | getOrCreate cr f =>
    simp only [lkOp]
    split
    · exact h
    · cases cr <;> simp [LkInv] <;> exact h
  | set f =>
    simp only [lkOp]
    split <;> first | exact h | simp [LkInv]
  | empty f =>
    simp only [lkOp]
    split <;> first | exact h | simp [LkInv]

/-- `Value` after any operation reports exactly what that operation stored -/
theorem lk_value_after (l : Lk) (op : LOp) :
    (lkOp (lkOp l op).1 .value).2 =
      (if (lkOp l op).1.isempty then { b1 := true } else { v := (lkOp l op).1.value }) := rfl

/-- callbacks that report an error or ask to be ignored leave a `Locked` unchanged -/
theorem lk_set_ignored (l : Lk) (f : Val → Bool → CbOut) (h : ∀ v, f l.value l.isempty ≠ .ok v) :
    (lkOp l (.set f)).1 = l := by
  simp only [lkOp]
  split
  · rename_i v hv; exact absurd hv (h v)
  · rfl
  · rfl

/-! ### the tie to the source -/

theorem facts_ok :
    Gen.C32.singleWriteMethodsLock = true ∧ Gen.C32.singleReadMethodsRLock = true ∧
    Gen.C32.lockedWriteMethodsLock = true ∧ Gen.C32.lockedReadMethodsRLock = true ∧
    Gen.C32.newItemWriteLock = true ∧ Gen.C32.loadItemReadLock = true ∧
    Gen.C32.getOrCreateCountsCreated = true := by decide

theorem source_pinned : Gen.C32.pins = Pins.C32 := by decide

end Mitum.C32
