import MitumModel.Model.Import
import MitumModel.Props.C14
import MitumModel.Gen.C15
import MitumModel.Pins
/-!
C15  Importing a block range stores every block.
-/
namespace Mitum.C15
open Mitum.BatchWork Mitum.Import Mitum.C14

def hs (frm a n : Nat) : List Nat := (List.range' a n).map (· + frm)

theorem hs_append (frm a m n : Nat) : hs frm a m ++ hs frm (a + m) n = hs frm a (m + n) := by
  unfold hs
  rw [← List.map_append, List.range'_append_1]

theorem batchHeights_eq (frm : Nat) (b : Batch) : batchHeights frm b = hs frm b.first (b.last + 1 - b.first) := rfl

/-- with a pending (unsaved) batch `p` ending right before `i`, the run saves everything from
    `p.first` to the end -/
theorem savedBy_pending (fs : FinalSave) (hfs : fs ≠ FinalSave.lenLtLimit) (frm limit size : Nat) :
    ∀ (bs : List Batch) (i : Nat) (p : Batch), Covers limit size i bs →
      p.first ≤ p.last → p.last + 1 = i →
      savedBy fs frm limit bs (some p) = hs frm p.first (size - p.first) := by
  intro bs
  induction bs with
  | nil =>
    intro i p hc hp1 hp2
    unfold Covers at hc
    subst hc
    unfold savedBy
    simp only
    have hlen : 0 < p.last + 1 - p.first := by omega
    cases fs with
    | lenLtLimit => exact absurd rfl hfs
    | lenPos => simp only [hlen, if_true, batchHeights_eq]; congr 1; omega
    | always => simp only [batchHeights_eq]; congr 1; omega
  | cons b rest ih =>
    intro i p hc hp1 hp2
    unfold Covers at hc
    obtain ⟨hb1, hb2, hb3, _, hrest⟩ := hc
    unfold savedBy
    simp only
    rw [ih (b.last + 1) b hrest hb2 rfl, batchHeights_eq]
    have h1 : p.last + 1 - p.first + (size - b.first) = size - p.first := by omega
    have h2 : b.first = p.first + (p.last + 1 - p.first) := by omega
    rw [h2, hs_append]
    congr 1
    omega

/-- ✦ `import_saves_all`: for every range `from ≤ to` and every batch limit ≥ 1, a successful
    import has saved exactly the heights `from … to` (in order), provided the final save does not
    depend on the last batch being short — the regenerated fact. -/
theorem import_saves_all (fs : FinalSave) (hfs : fs ≠ FinalSave.lenLtLimit) (frm to limit : Nat)
    (hft : frm ≤ to) (hl : 0 < limit) :
    run fs frm to limit = some ((List.range' frm (to + 1 - frm))) := by
  unfold run
  obtain ⟨bs, hplan, hcov⟩ := batch_plan_partition (to + 1 - frm) limit (by omega) hl
  rw [hplan]
  simp only [Option.map_some, Option.some.injEq]
  cases bs with
  | nil => unfold Covers at hcov; omega
  | cons b rest =>
    unfold Covers at hcov
    obtain ⟨hb1, hb2, hb3, _, hrest⟩ := hcov
    unfold savedBy
    simp only [List.nil_append]
    rw [savedBy_pending fs hfs frm limit (to + 1 - frm) rest (b.last + 1) b hrest hb2 rfl]
    unfold hs
    rw [hb1]
    simp only [Nat.sub_zero]
    apply List.ext_getElem
    · simp
    · intro n h1 h2
      simp [List.getElem_range']
      omega

/-- ✗ the unrepaired condition: with 6 blocks and batch limit 3 (and whenever the count is a
    multiple of the limit) the last batch is never saved, and the run still reports success. -/
theorem multiple_of_limit_witness :
    run FinalSave.lenLtLimit 0 5 3 = some [0, 1, 2] ∧ run FinalSave.lenLtLimit 0 2 3 = some [] := by decide

/-! ### faults while batches are saved -/

theorem savedBy_eq_flatten (fs : FinalSave) (frm limit : Nat) : ∀ (bs : List Batch) (p : Option Batch),
    savedBy fs frm limit bs p = (savesOf fs frm limit bs p).flatten := by
  intro bs
  induction bs with
  | nil =>
    intro p
    cases p with
    | none => simp [savedBy, savesOf]
    | some b =>
      cases fs <;> simp only [savedBy, savesOf] <;> (try split) <;> simp
  | cons b rest ih =>
    intro p
    simp only [savedBy, savesOf, List.flatten_append, ih]
    cases p <;> simp

theorem mergeAll_fixed (fault : Fault) (single : Bool) : ∀ (hs stored : List Nat) (cancelled : Bool) (r : List Nat × Bool),
    mergeAll fixedCode fault single hs stored cancelled = some r → r.1 = stored ++ hs := by
  intro hs
  induction hs with
  | nil => intro stored cancelled r h; simp [mergeAll] at h; rw [← h]; simp
  | cons x rest ih =>
    intro stored cancelled r h
    simp only [mergeAll, fixedCode, Bool.not_true, Bool.false_and, Bool.false_eq_true, if_false, Bool.and_false] at h
    by_cases hf : fault = .mergeFails x
    · simp [hf] at h
    · simp only [hf, if_false] at h
      have := ih _ _ r h
      rw [this]; simp

theorem saveSeq_fixed (fault : Fault) : ∀ (saves : List (List Nat)) (stored l : List Nat),
    saveSeq fixedCode fault saves stored = some l → l = stored ++ saves.flatten := by
  intro saves
  induction saves with
  | nil => intro stored l h; simp [saveSeq] at h; rw [← h]; simp
  | cons hs rest ih =>
    intro stored l h
    simp only [saveSeq] at h
    cases hm : mergeAll fixedCode fault (hs.length == 1) hs stored false with
    | none => rw [hm] at h; cases h
    | some r =>
      rw [hm] at h
      simp only at h
      have h1 := mergeAll_fixed fault _ hs stored false r hm
      split at h
      · cases h
      · have := ih _ _ h
        rw [this, h1]; simp

/-- **import_success_means_all_stored.**  Whatever goes wrong while batches are saved — the merge step of any block
fails, or the context is cancelled while any block is merged — a run that reports success has stored exactly the
heights `from … to`, in order (for the code as extracted: the one-importer branch returns the merge error, the merge
loop does not stop at a cancelled context, the final save does not depend on the last batch being short). -/
theorem import_success_means_all_stored (fault : Fault) (fs : FinalSave) (hfs : fs ≠ FinalSave.lenLtLimit)
    (frm to limit : Nat) (hft : frm ≤ to) (hl : 0 < limit) (l : List Nat)
    (h : runF fixedCode fault fs frm to limit = some (some l)) :
    l = List.range' frm (to + 1 - frm) := by
  have hrun := import_saves_all fs hfs frm to limit hft hl
  unfold run at hrun
  unfold runF at h
  cases hp : plan (to + 1 - frm) limit with
  | none => rw [hp] at h; cases h
  | some bs =>
    rw [hp] at h hrun
    simp only [Option.map_some, Option.some.injEq] at h hrun
    have := saveSeq_fixed fault _ [] l h
    rw [this, List.nil_append, ← savedBy_eq_flatten, hrun]

/-- a failed merge of a one-importer batch reported as success (seeded change C15-C) -/
theorem single_merge_error_swallowed_witness :
    runF { fixedCode with singleReturnsMergeError := false } (.mergeFails 3) .lenPos 3 3 1 = some (some []) ∧
    runF fixedCode (.mergeFails 3) .lenPos 3 3 1 = some none := by decide

/-- merges that stop at a cancelled context in the final save (seeded change C15-D) -/
theorem merges_stop_at_cancel_witness :
    runF { fixedCode with mergesIgnoreContext := false } (.cancelDuringMerge 2) .lenPos 2 3 2 = some (some [2]) ∧
    runF fixedCode (.cancelDuringMerge 2) .lenPos 2 3 2 = some (some [2, 3]) := by decide

/-- the final-save condition of the current source -/
def genFinalSave : FinalSave :=
  if Gen.C15.finalSaveCond = "len(ims) > 0" then .lenPos
  else if Gen.C15.finalSaveCond = "" then .always
  else .lenLtLimit

/-- ✦ facts of the current source -/
theorem facts_ok :
    Gen.C15.extractErrors = [] ∧ genFinalSave ≠ FinalSave.lenLtLimit ∧
    Gen.C15.prefSavesPrevious = true ∧ Gen.C15.singleBranchReturnsMergeError = true ∧
    Gen.C15.mergeLoopIgnoresContext = true ∧ Gen.C15.pins = Pins.C15 := by
  refine ⟨by decide, by decide, by decide, by decide, by decide, by decide⟩

example : run FinalSave.lenPos 0 5 3 = some [0, 1, 2, 3, 4, 5] := by decide

end Mitum.C15
