import MitumModel.Model.BallotCount
import MitumModel.Gen.C04
import MitumModel.Pins
/-!
C04  Ballotbox emits only sound voteproofs.
-/
namespace Mitum.C04
open Mitum.BallotCount Mitum.Vote Mitum.Threshold Mitum.Voteproof

/-- the suffrage nodes are plain addresses (1..99) -/
def SufOK (S : List Nat) : Prop := ∀ a, a ∈ S → 0 < a ∧ a < 100

theorem addrOf_member (S : List Nat) (hS : SufOK S) (x : Nat) (h : x ∈ S) : addrOf x = x := by
  have := hS x h
  simp only [addrOf]
  split
  · omega
  · rfl

/-- the only way an emitted voteproof is not what the validator recounts: the recount's majority is an
    empty-proposal fact, which `SetMajority` did not set (the voteproof reads DRAW) -/
def EmptyMajority (empty : String → Bool) (S : List Nat) (t10 : Nat) (order : List String → List String) (vp : VP) : Prop :=
  ∃ f, empty f = true ∧ vp.majority = none ∧
    findVoteResult S.length (required S.length t10) (vp.votes.map (·.2)) (order (vp.votes.map (·.2))) = .majority f

def Inv (empty : String → Bool) (S : List Nat) (t10 : Nat) (order : List String → List String) (r : Rec) : Prop :=
  (∀ v, v ∈ r.voted → v.1 ∈ S) ∧ (r.voted.map (·.1)).Nodup ∧
  (∀ vp, vp ∈ r.emitted → (validWith S t10 (order (vp.votes.map (·.2))) vp = true ∨ EmptyMajority empty S t10 order vp) ∧ vp.expels = [] ∧
      (∀ v, v ∈ vp.votes → v.1 ∈ S)) ∧
  (r.emitted ≠ [] → r.finished = true) ∧ r.emitted.length ≤ 1

theorem nodupB_of (l : List Nat) (h : l.Nodup) : Voteproof.nodup l = true := by simp [Voteproof.nodup, h]

theorem inv_count (empty : String → Bool) (S : List Nat) (t10 : Nat) (order : List String → List String) (r : Rec)
    (h : Inv empty S t10 order r) : Inv empty S t10 order (countRec empty S t10 order r) := by
  obtain ⟨h1, h2, h3, h4, h5⟩ := h
  simp only [countRec]
  split
  · exact ⟨h1, h2, h3, h4, h5⟩
  · rename_i hc
    simp only [Bool.or_eq_true, not_or, Bool.not_eq_true] at hc
    have hfin : r.finished = false := hc.1
    have hne : r.voted.isEmpty = false := hc.2
    have hem : r.emitted = [] := by
      cases he : r.emitted with
      | nil => rfl
      | cons a l => have := h4 (by simp [he]); simp [this] at hfin
    have hall : (r.voted.all (fun v => S.contains v.1)) = true := by
      simp only [List.all_eq_true, List.contains_iff_mem]
      exact h1
    split
    · rename_i f hres
      refine ⟨h1, h2, ?_, by simp, by simp [hem]⟩
      intro vp hvp
      simp only [hem, List.nil_append, List.mem_singleton] at hvp
      subst hvp
      refine ⟨?_, rfl, h1⟩
      cases he : empty f with
      | false =>
        left
        simp [validWith, reduced, expectedRes, hne, nodupB_of _ h2, hall, hres]
        exact fun a b hab => h1 (a, b) hab
      | true =>
        right
        exact ⟨f, he, by simp, hres⟩
    · rename_i hres
      refine ⟨h1, h2, ?_, by simp, by simp [hem]⟩
      intro vp hvp
      simp only [hem, List.nil_append, List.mem_singleton] at hvp
      subst hvp
      refine ⟨?_, rfl, h1⟩
      left
      simp [validWith, reduced, expectedRes, hne, nodupB_of _ h2, hall, hres]
      exact fun a b hab => h1 (a, b) hab
    · exact ⟨h1, h2, h3, h4, h5⟩

theorem inv_step (empty : String → Bool) (S : List Nat) (hS : SufOK S) (t10 : Nat) (order : List String → List String) (r : Rec) (o : Op)
    (h : Inv empty S t10 order r) : Inv empty S t10 order (step empty true S t10 order r o) := by
  cases o with
  | count => exact inv_count empty S t10 order r h
  | vote signer fact =>
    simp only [step]
    split
    · exact h
    · split
      · exact h
      · split
        · exact h
        · split
          · exact h
          · rename_i hfin hin hvoted hkey
            simp only [Bool.true_and, Bool.not_eq_true', Bool.not_eq_false] at hkey
            have hmem : signer ∈ S := by simpa [List.contains_iff_mem] using hkey
            apply inv_count
            obtain ⟨h1, h2, h3, h4, h5⟩ := h
            refine ⟨?_, ?_, h3, h4, h5⟩
            · intro v hv
              simp only [List.mem_append, List.mem_singleton] at hv
              rcases hv with hv | hv
              · exact h1 v hv
              · subst hv; exact hmem
            · simp only [List.map_append, List.map_cons, List.map_nil]
              rw [List.nodup_append]
              refine ⟨h2, by simp, ?_⟩
              intro a ha b hb
              simp only [List.mem_singleton] at hb
              subst hb
              intro e
              subst e
              -- `a` already voted: its address is among the voted addresses
              apply hvoted
              simp only [List.contains_iff_mem, List.mem_map]
              obtain ⟨v, hv, rfl⟩ := List.mem_map.mp ha
              exact ⟨v, hv, rfl⟩
  | voteSF signer fact =>
    simp only [step]
    split
    · exact h
    · split
      · exact h
      · split
        · exact h
        · rename_i hfin hvoted hkey
          simp only [Bool.true_and, Bool.not_eq_true', Bool.not_eq_false] at hkey
          have hmem : signer ∈ S := by simpa [List.contains_iff_mem] using hkey
          apply inv_count
          obtain ⟨h1, h2, h3, h4, h5⟩ := h
          refine ⟨?_, ?_, h3, h4, h5⟩
          · intro v hv
            simp only [List.mem_append, List.mem_singleton] at hv
            rcases hv with hv | hv
            · exact h1 v hv
            · subst hv; exact hmem
          · simp only [List.map_append, List.map_cons, List.map_nil]
            rw [List.nodup_append]
            refine ⟨h2, by simp, ?_⟩
            intro a ha b hb
            simp only [List.mem_singleton] at hb
            subst hb
            intro e
            subst e
            apply hvoted
            simp only [List.contains_iff_mem, List.mem_map]
            obtain ⟨v, hv, rfl⟩ := List.mem_map.mp ha
            exact ⟨v, hv, rfl⟩

theorem inv_run (empty : String → Bool) (S : List Nat) (hS : SufOK S) (t10 : Nat) (order : List String → List String) (ops : List Op) (r : Rec)
    (h : Inv empty S t10 order r) : Inv empty S t10 order (run empty true S t10 order r ops) := by
  induction ops generalizing r with
  | nil => exact h
  | cons o os ih => exact ih _ (inv_step empty S hS t10 order r o h)

theorem inv_empty (empty : String → Bool) (S : List Nat) (t10 : Nat) (order : List String → List String) : Inv empty S t10 order emptyRec := by
  refine ⟨by simp [emptyRec], by simp [emptyRec], by simp [emptyRec], by simp [emptyRec], by simp [emptyRec]⟩

/-- **emitted_sound_or_empty.**  Ballots without expels: whatever sign facts arrive for the stage point, in
whatever order, interleaved with whatever counts, every voteproof the box emits holds sign facts of distinct
suffrage nodes under their own keys, and EITHER passes the validation other nodes apply (the C03 model of
`IsValid` + `IsValidVoteproofWithSuffrage`, under the same map iteration order: its result is the recount of
exactly those sign facts) OR the recount's majority is an empty-proposal fact and the voteproof reads DRAW.
At most one voteproof is emitted for the stage point. -/
theorem emitted_sound_or_empty (empty : String → Bool) (S : List Nat) (hS : SufOK S) (t10 : Nat) (order : List String → List String) (ops : List Op) :
    (∀ vp, vp ∈ (run empty true S t10 order emptyRec ops).emitted →
      (validWith S t10 (order (vp.votes.map (·.2))) vp = true ∨ EmptyMajority empty S t10 order vp) ∧
      vp.expels = [] ∧ (∀ v, v ∈ vp.votes → v.1 ∈ S)) ∧
    (run empty true S t10 order emptyRec ops).emitted.length ≤ 1 := by
  have h := inv_run empty S hS t10 order ops emptyRec (inv_empty empty S t10 order)
  exact ⟨h.2.2.1, h.2.2.2.2⟩

/-- **emitted_sound_partial.**  … and when no empty-proposal fact is voted on (expels and empty-proposal facts
are the two excluded cases; each has its witness below), every emitted voteproof passes the validation. -/
theorem emitted_sound_partial (S : List Nat) (hS : SufOK S) (t10 : Nat) (order : List String → List String) (ops : List Op) :
    (∀ vp, vp ∈ (run noEmpty true S t10 order emptyRec ops).emitted →
      validWith S t10 (order (vp.votes.map (·.2))) vp = true ∧ vp.expels = [] ∧ (∀ v, v ∈ vp.votes → v.1 ∈ S)) ∧
    (run noEmpty true S t10 order emptyRec ops).emitted.length ≤ 1 := by
  have h := emitted_sound_or_empty noEmpty S hS t10 order ops
  refine ⟨?_, h.2⟩
  intro vp hvp
  obtain ⟨h1, h2, h3⟩ := h.1 vp hvp
  refine ⟨?_, h2, h3⟩
  rcases h1 with h1 | ⟨f, hf, _⟩
  · exact h1
  · simp [noEmpty] at hf

/-- ✗ known finding C04:empty-proposal-majority-recounts-as-majority — three nodes vote the empty-proposal
fact `E`: the box finishes a voteproof without a majority (DRAW, as `SetMajority` intends), the validation
other nodes apply recounts MAJORITY and rejects it -/
theorem empty_majority_witness :
    let S := [1, 2, 3]
    let r := run (fun f => f == "E") true S 670 keysOf emptyRec [.vote 1 "E", .vote 2 "E", .vote 3 "E"]
    r.emitted = [{ votes := [(1, "E"), (2, "E"), (3, "E")], expels := [], majority := none }] ∧
    validWith S 670 (keysOf ["E", "E", "E"]) { votes := [(1, "E"), (2, "E"), (3, "E")], expels := [], majority := none } = false := by
  decide

/-- the repaired rule is needed: without the key comparison a sign fact under a foreign key enters the
voteproof, and the voteproof the box emits is rejected by every other node -/
theorem foreign_key_witness :
    let S := [1, 2, 3]
    let r := run noEmpty false S 670 keysOf emptyRec [.vote 101 "A", .vote 2 "A", .vote 3 "A"]
    r.emitted = [{ votes := [(101, "A"), (2, "A"), (3, "A")], expels := [], majority := some "A" }] ∧
    (∀ vp, vp ∈ r.emitted → validWith S 670 (keysOf (vp.votes.map (·.2))) vp = false) := by
  refine ⟨by decide, ?_⟩
  intro vp hvp
  have : vp = { votes := [(101, "A"), (2, "A"), (3, "A")], expels := [], majority := some "A" } := by
    have h : (run noEmpty false [1, 2, 3] 670 keysOf emptyRec [.vote 101 "A", .vote 2 "A", .vote 3 "A"]).emitted =
        [{ votes := [(101, "A"), (2, "A"), (3, "A")], expels := [], majority := some "A" }] := by decide
    simpa [h] using hvp
  subst this
  decide

/-- with the key comparison the same ballots: the foreign sign fact is dropped, node 1 can still vote -/
example : (run noEmpty true [1, 2, 3] 670 keysOf emptyRec [.vote 101 "A", .vote 2 "A", .vote 3 "A", .vote 1 "A"]).emitted =
    [{ votes := [(2, "A"), (3, "A"), (1, "A")], expels := [], majority := some "A" }] := by decide

/-- the two counting rules for ballots with expels disagree when the number of expels is at most
f = n - required n (the box keeps the full suffrage and the configured threshold, the validator always
counts in the reduced suffrage at 100 %): 7 nodes, threshold 67 %, node 7 expelled, 5 of the other 6 vote A -/
theorem expel_recount_mismatch_witness :
    let S := [1, 2, 3, 4, 5, 6, 7]
    let votes := [(1, "A"), (2, "A"), (3, "A"), (4, "A"), (5, "A"), (6, "B")]
    -- the box: one expel is not more than 7 - required 7 670 = 2, so it counts 5 of 7 at 67 %: MAJORITY A
    findVoteResult 7 (required 7 670) (votes.map (·.2)) (keysOf (votes.map (·.2))) = .majority "A" ∧
    1 ≤ 7 - required 7 670 ∧
    -- the validator: 6 nodes at 100 %: a draw; the voteproof the box emits is rejected
    validWith S 670 (keysOf (votes.map (·.2)))
      { votes := votes, expels := [{ node := 7, signers := [1, 2, 3, 4, 5, 6] }], majority := some "A" } = false := by
  decide

theorem facts_ok :
    Gen.C04.keyChecked = true ∧ Gen.C04.deferredKeyChecked = true ∧ Gen.C04.oneVotePerNode = true ∧
    Gen.C04.voteUnderLock = true ∧ Gen.C04.countSerialised = true ∧ Gen.C04.plainCountIsRecount = true ∧
    Gen.C04.extractErrors = [] := by decide

/-- the two expel rules as they stand in the source (known finding C04:expel-recount-mismatch while both hold) -/
theorem expel_rules_as_extracted :
    Gen.C04.boxReducesOnlyAboveF = true ∧ Gen.C04.validatorAlwaysReduces = true := by decide

theorem source_pinned : Gen.C04.pins = Pins.C04 := by decide

/-- 100 % of `x` nodes is all of them -/
theorem required_full (x : Nat) : required x 1000 = x := by
  unfold required; omega

/-- **expel_rules_disagree_exactly.**  `k` expels that are not more than `f = n − required n t10`, `m` of the
remaining `n − k` nodes vote for one fact: the box (full suffrage, configured threshold) calls it a majority
and the validator (reduced suffrage, 100 %) does not, exactly when `required n t10 ≤ m < n − k`.  (With more
than `f` expels both count in the reduced suffrage at 100 % and agree.) -/
theorem expel_rules_disagree_exactly (n t10 k m : Nat) :
    (required n t10 ≤ m ∧ ¬ required (n - k) 1000 ≤ m) ↔ (required n t10 ≤ m ∧ m < n - k) := by
  rw [required_full]; omega

/-- the witness of the known finding is an instance -/
example : required 7 670 ≤ 5 ∧ 5 < 7 - 1 ∧ 1 ≤ 7 - required 7 670 := by decide

end Mitum.C04
