#!/bin/bash
# usage: verify_mutant.sh <outdir(A or B)> <pkgdir> <demo-dest-filename> <run-regex>
# checks in a scratch worktree: patch compiles, package tests pass, demo fails with patch and passes without
set -u
OUT="$1"; PKG="$2"; DEST="$3"; RX="$4"
export GOFLAGS=-mod=mod GOPROXY=off GOSUMDB=off GOTOOLCHAIN=local
WT=/tmp/mut/wt-verify
[ -d "$WT" ] || git -C /repo worktree add -q --detach "$WT" HEAD
cd "$WT" && git checkout -q --detach "$(git -C /repo rev-parse HEAD)" && git checkout -- . && git clean -fdq
cp "$OUT"/demo_test.go "$PKG/$DEST"
echo "-- demo WITHOUT patch (must pass)"
go test -tags "${TAGS:-test}" -count=1 -run "$RX" "./$PKG/" 2>&1 | tail -3
git apply "$OUT/patch.diff" || { echo "patch does not apply"; exit 2; }
echo "-- build + vet with patch"
go build ./... 2>&1 | tail -3
echo "-- demo WITH patch (must fail)"
go test -tags "${TAGS:-test}" -count=1 -run "$RX" "./$PKG/" 2>&1 | tail -4
rm -f "$PKG/$DEST"
echo "-- existing package tests with patch (must pass)"
go test -tags "${TAGS:-test}" -count=1 "./$PKG/" 2>&1 | grep -E "^(--- FAIL|FAIL|ok|panic)" | head -12
git checkout -- . ; git clean -fdq
