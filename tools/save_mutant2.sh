#!/bin/bash
# usage: save_mutant2.sh <Cxx> <A|B> <C|D> "<caught_by text>" "<verify cmd text>"   (round 2: /tmp/mut/${OUTP:-out2}-<id>/<A|B> -> seeded/<id>-<C|D>)
id=$1; v=$2; w=$3; d=/verif/seeded/$id-$w; mkdir -p $d
cp /tmp/mut/${OUTP:-out2}-$id/$v/patch.diff /tmp/mut/${OUTP:-out2}-$id/$v/DEMO.md $d/ 2>/dev/null
cp /tmp/mut/${OUTP:-out2}-$id/$v/demo_test.go $d/ 2>/dev/null
python3 - "$id" "$v" "$d" "$4" "$5" <<'PY'
import json,sys
id,v,d,caught,ver=sys.argv[1:6]
import os
outp=os.environ.get('OUTP','out2')
try: meta=json.load(open(f'/tmp/mut/{outp}-{id}/{v}/meta.json'))
except Exception: meta={"property":id}
meta['round']=int(__import__('os').environ.get('ROUND','2'))
meta['verified_by_me']={"commands":[ver,"tools/try_mutant.sh patch.diff "+id+" (git -C /repo apply; ./check; git -C /repo checkout -- .)"]}
meta['caught_by']=caught
json.dump(meta,open(d+'/meta.json','w'),indent=1)
PY
