import MitumModel.Model.Broker
import MitumModel.Props.C29
import MitumModel.Gen.C30
import MitumModel.Pins
/-!
C30  Stream header protocol round-trips and survives hostile peers.
-/
namespace Mitum.C30
open Mitum.Frame Mitum.Broker Mitum.C29

/-- reading one byte from any chunking of `b :: tail` -/
theorem ensureRead_one (cs : List Bytes) (b : UInt8) (tail : Bytes) (h : cs.flatten = b :: tail) :
    ∃ r, ensureRead cs 1 = some ([b], r) ∧ r.flatten = tail := by
  obtain ⟨p, r, hr⟩ := ensureRead_isSome cs 1 (by rw [h]; simp)
  obtain ⟨h1, h2⟩ := ensureRead_some _ _ _ _ hr
  match p, h2 with
  | [x], _ =>
    rw [h] at h1
    simp at h1
    exact ⟨r, by rw [hr, h1.1], h1.2⟩

theorem ensureRead_exact (cs : List Bytes) (x tail : Bytes) (h : cs.flatten = x ++ tail) :
    ∃ r, ensureRead cs x.length = some (x, r) ∧ r.flatten = tail := by
  obtain ⟨p, r, hr⟩ := ensureRead_isSome cs x.length (by rw [h]; simp)
  obtain ⟨h1, h2⟩ := ensureRead_some _ _ _ _ hr
  rw [h] at h1
  have := List.append_inj h1 h2
  exact ⟨r, by rw [hr, this.1], this.2⟩

theorem lengthed_roundtrip (maxItem : Nat) (cs : List Bytes) (x tail : Bytes)
    (hx : x.length ≤ maxItem) (hm : maxItem < 2 ^ 64) (h : cs.flatten = encodeItem x ++ tail) :
    ∃ r, readLengthedStream maxItem cs = .ok (x, r) ∧ r.flatten = tail := by
  apply readLengthedStream_complete maxItem cs x tail _ hx
  rw [h]; exact readLengthedBytes_encodeItem x tail (by omega)

/-- **head_roundtrip.**  A head written by `writeHead` — request or response, any encoder
hint and header payload within the size limit that the receiving codec accepts — is read
back identically from any chunking of the stream, and the reader is left exactly at the
byte after it. -/
theorem head_roundtrip (c : Codec) (maxItem : Nat) (hm : maxItem < 2 ^ 64) (h : Head) (l : Bytes) (cs : List Bytes)
    (hdt : h.dt = dtRequest ∨ h.dt = dtResponse)
    (h1 : h.encHint.length ≤ maxItem) (h2 : h.header.length ≤ maxItem)
    (hk : c.knownEnc h.encHint = true) (hd : c.kind h.encHint h.header = some h.dt)
    (hcs : cs.flatten = encodeHead h ++ l) :
    ∃ rest, readMsg c maxItem cs = .ok (.head h, rest) ∧ rest.flatten = l := by
  unfold encodeHead at hcs
  simp only [List.cons_append, List.nil_append, List.append_assoc] at hcs
  obtain ⟨r0, hr0, hf0⟩ := ensureRead_one cs h.dt _ hcs
  obtain ⟨r1, hr1, hf1⟩ := lengthed_roundtrip maxItem r0 h.encHint _ h1 hm hf0
  obtain ⟨r2, hr2, hf2⟩ := lengthed_roundtrip maxItem r1 h.header _ h2 hm hf1
  refine ⟨r2, ?_, hf2⟩
  have hv : validDT h.dt = true := by rcases hdt with e | e <;> simp [validDT, e, dtRequest, dtResponse, dtBody]
  have hnb : (h.dt == dtBody) = false := by rcases hdt with e | e <;> simp [e, dtRequest, dtResponse, dtBody]
  have hnot : (h.dt != dtRequest && h.dt != dtResponse) = false := by
    rcases hdt with e | e <;> simp [e, dtRequest, dtResponse]
  simp [readMsg, readDataType, hr0, hv, hnb, readHead, hnot, hr1, hk, hr2, hd]

/-- **body_roundtrip**, empty body -/
theorem body_roundtrip_empty (c : Codec) (maxItem : Nat) (l : Bytes) (cs : List Bytes)
    (hcs : cs.flatten = encodeBody .empty ++ l) :
    ∃ rest, readMsg c maxItem cs = .ok (.body .empty 0, rest) ∧ rest.flatten = l := by
  simp only [encodeBody, List.cons_append, List.nil_append] at hcs
  obtain ⟨r0, hr0, hf0⟩ := ensureRead_one cs dtBody _ hcs
  obtain ⟨r1, hr1, hf1⟩ := ensureRead_one r0 btEmpty _ hf0
  exact ⟨r1, by simp [readMsg, readDataType, hr0, validDT, dtBody, dtRequest, dtResponse, readBody, hr1, validBT, btEmpty, btFixed, btStream], hf1⟩

/-- fixed-length body: the announced length, exactly the payload, and the reader is left after it -/
theorem body_roundtrip_fixed (c : Codec) (maxItem : Nat) (p l : Bytes) (cs : List Bytes)
    (hp : p.length < 2 ^ 64) (hcs : cs.flatten = encodeBody (.fixed p) ++ l) :
    ∃ rest, readMsg c maxItem cs = .ok (.body (.fixed p) p.length, rest) ∧ rest.flatten = l := by
  simp only [encodeBody, List.cons_append, List.nil_append, List.append_assoc] at hcs
  obtain ⟨r0, hr0, hf0⟩ := ensureRead_one cs dtBody _ hcs
  obtain ⟨r1, hr1, hf1⟩ := ensureRead_one r0 btFixed _ hf0
  obtain ⟨r2, hr2, hf2⟩ := ensureRead_exact r1 (be64 p.length) _ hf1
  obtain ⟨r3, hr3, hf3⟩ := ensureRead_exact r2 p _ hf2
  rw [be64_length] at hr2
  refine ⟨r3, ?_, hf3⟩
  simp [readMsg, readDataType, hr0, validDT, dtBody, dtRequest, dtResponse, readBody, hr1, validBT, btEmpty, btFixed,
    btStream, hr2, readBe64_be64 _ hp, takeUpTo, hr3]

/-- stream body: everything up to the end of the stream -/
theorem body_roundtrip_stream (c : Codec) (maxItem : Nat) (p : Bytes) (cs : List Bytes)
    (hcs : cs.flatten = encodeBody (.stream p)) :
    readMsg c maxItem cs = .ok (.body (.stream p) 0, []) := by
  simp only [encodeBody, List.cons_append, List.nil_append] at hcs
  obtain ⟨r0, hr0, hf0⟩ := ensureRead_one cs dtBody _ hcs
  obtain ⟨r1, hr1, hf1⟩ := ensureRead_one r0 btStream _ hf0
  simp [readMsg, readDataType, hr0, validDT, dtBody, dtRequest, dtResponse, readBody, hr1, validBT, btEmpty, btFixed,
    btStream, hf1]

/-! ### hostile peers: every byte stream gives a message or an error -/

theorem ensureRead_len (cs : List Bytes) (k : Nat) (p : Bytes) (r : List Bytes) (h : ensureRead cs k = some (p, r)) :
    p.length = k := (ensureRead_some _ _ _ _ h).2

theorem readLengthedStream_no_panic (maxItem : Nat) (cs : List Bytes) : readLengthedStream maxItem cs ≠ .panic := by
  unfold readLengthedStream
  cases h8 : ensureRead cs 8 with
  | none => simp
  | some v =>
    obtain ⟨p, r⟩ := v
    obtain ⟨n, hn⟩ := readBe64_isSome_of_length p (ensureRead_len _ _ _ _ h8)
    simp only [hn]
    split
    · simp
    · split
      · simp
      · cases ensureRead r n with
        | none => simp
        | some w => simp

theorem readBody_no_panic (cs : List Bytes) : readBody cs ≠ .panic := by
  unfold readBody
  cases h1 : ensureRead cs 1 with
  | none => simp
  | some v =>
    obtain ⟨p, r⟩ := v
    have hl := ensureRead_len _ _ _ _ h1
    match p, hl with
    | [b], _ =>
      simp only
      split
      · simp
      · split
        · simp
        · split
          · simp
          · cases h8 : ensureRead r 8 with
            | none => simp
            | some w =>
              obtain ⟨q, r2⟩ := w
              obtain ⟨n, hn⟩ := readBe64_isSome_of_length q (ensureRead_len _ _ _ _ h8)
              simp [hn]

/-- **read_total.**  Whatever bytes a peer sends, in whatever chunks, reading the next
message ends with a message or an error — no slice/bounds failure and no unchecked
type assertion is reachable. -/
theorem read_total (c : Codec) (maxItem : Nat) (cs : List Bytes) : readMsg c maxItem cs ≠ .panic := by
  unfold readMsg readDataType
  cases h1 : ensureRead cs 1 with
  | none => simp
  | some v =>
    obtain ⟨p, r⟩ := v
    have hl := ensureRead_len _ _ _ _ h1
    match p, hl with
    | [b], _ =>
      simp only
      by_cases hv : validDT b = true
      · simp only [hv, if_true]
        by_cases hb : (b == dtBody) = true
        · simp only [hb, if_true]
          have := readBody_no_panic r
          cases hq : readBody r with
          | ok x => simp
          | error => simp
          | panic => exact absurd hq this
        · simp only [hb]
          unfold readHead
          by_cases hn : (b != dtRequest && b != dtResponse) = true
          · simp [hn]
          · simp only [hn]
            have hp1 := readLengthedStream_no_panic maxItem r
            cases hq : readLengthedStream maxItem r with
            | error => simp
            | panic => exact absurd hq hp1
            | ok x =>
              obtain ⟨hint, r1⟩ := x
              simp only
              by_cases hk : c.knownEnc hint = true
              · simp only [hk, Bool.not_true]
                have hp2 := readLengthedStream_no_panic maxItem r1
                cases hq2 : readLengthedStream maxItem r1 with
                | error => simp
                | panic => exact absurd hq2 hp2
                | ok y =>
                  obtain ⟨hd, r2⟩ := y
                  simp only
                  by_cases hkind : (c.kind hint hd == some b) = true
                  · simp [hkind]
                  · simp [hkind]
              · simp [hk]
      · simp [hv]

/-- **read_sound** for heads: a head that was read is exactly what `writeHead` would have
written in front of the rest of the stream, its kind is the announced data type and the
receiving codec knows the encoder. -/
theorem read_sound_head (c : Codec) (maxItem : Nat) (cs : List Bytes) (h : Head) (rest : List Bytes)
    (hr : readMsg c maxItem cs = .ok (.head h, rest)) :
    cs.flatten = encodeHead h ++ rest.flatten ∧ (h.dt = dtRequest ∨ h.dt = dtResponse) ∧
    c.knownEnc h.encHint = true ∧ c.kind h.encHint h.header = some h.dt := by
  unfold readMsg readDataType at hr
  cases h1 : ensureRead cs 1 with
  | none => simp [h1] at hr
  | some v =>
    obtain ⟨p, r⟩ := v
    have hl := ensureRead_len _ _ _ _ h1
    obtain ⟨hflat, _⟩ := ensureRead_some _ _ _ _ h1
    match p, hl with
    | [b], _ =>
      simp only [h1] at hr
      by_cases hv : validDT b = true
      · simp only [hv, if_true] at hr
        by_cases hb : (b == dtBody) = true
        · simp only [hb, if_true] at hr
          cases hq : readBody r with
          | ok x => simp [hq] at hr
          | error => simp [hq] at hr
          | panic => simp [hq] at hr
        · simp only [hb] at hr
          unfold readHead at hr
          by_cases hn : (b != dtRequest && b != dtResponse) = true
          · simp [hn] at hr
          · simp only [hn] at hr
            cases hq : readLengthedStream maxItem r with
            | error => simp [hq] at hr
            | panic => simp [hq] at hr
            | ok x =>
              obtain ⟨hint, r1⟩ := x
              simp only [hq] at hr
              by_cases hk : c.knownEnc hint = true
              · simp only [hk, Bool.not_true] at hr
                cases hq2 : readLengthedStream maxItem r1 with
                | error => simp [hq2] at hr
                | panic => simp [hq2] at hr
                | ok y =>
                  obtain ⟨hd, r2⟩ := y
                  simp only [hq2] at hr
                  by_cases hkind : (c.kind hint hd == some b) = true
                  · simp only [hkind, if_true, Bool.false_eq_true, if_false] at hr
                    injection hr with hr
                    injection hr with hh hrest
                    injection hh with hh
                    subst hh; subst hrest
                    have s1 := readLengthedStream_sound _ _ _ _ hq
                    have s2 := readLengthedStream_sound _ _ _ _ hq2
                    have e1 := (readLengthedBytes_ok _ _ _ s1).1
                    have e2 := (readLengthedBytes_ok _ _ _ s2).1
                    refine ⟨?_, ?_, hk, by simpa using hkind⟩
                    · rw [← hflat, e1, e2]; simp [encodeHead, List.append_assoc]
                    · simp only [Bool.and_eq_true, bne_iff_ne, ne_eq, not_and, Decidable.not_not] at hn
                      by_cases hreq : b = dtRequest
                      · exact Or.inl hreq
                      · exact Or.inr (hn hreq)
                  · simp [hkind] at hr
              · simp [hk] at hr
      · simp [hv] at hr

/-! ### the tie to the source -/

theorem facts_ok :
    Gen.C30.dtRequest = 1 ∧ Gen.C30.dtBody = 2 ∧ Gen.C30.dtResponse = 3 ∧
    Gen.C30.btEmpty = 1 ∧ Gen.C30.btFixed = 2 ∧ Gen.C30.btStream = 3 ∧
    Gen.C30.headAssertsKind = true ∧ Gen.C30.extractErrors = [] := by decide

theorem source_pinned : Gen.C30.pins = Pins.C30 := by decide

end Mitum.C30
