package main

import (
	"context"
	"fmt"
	"sort"
	"strings"
	"sync"
	"time"

	"github.com/spikeekips/mitum/base"
	"github.com/spikeekips/mitum/util"
	"github.com/spikeekips/mitum/util/valuehash"
)

func init() { register("C14", runC14) }

type c14map struct {
	height int
	hash   int
	prev   int
}

func runC14(c *Ctx) error {
	ncases := 400
	if c.Thorough() {
		ncases = 10000
	}
	hashes := map[int]util.Hash{}
	hashOf := func(id int) util.Hash {
		if h, ok := hashes[id]; ok {
			return h
		}
		h := valuehash.RandomSHA256()
		hashes[id] = h
		return h
	}
	mk := func(m c14map) base.BlockMap {
		mf := base.NewDummyManifest(base.Height(m.height), hashOf(m.hash))
		mf.SetPrevious(hashOf(m.prev))
		return base.NewDummyBlockMap(mf)
	}
	for ci := 0; ci < ncases; ci++ {
		n := 1 + c.Intn(12)
		if c.Thorough() && c.Chance(1, 10) {
			n = 1 + c.Intn(120)
		}
		limit := 1 + c.Intn(6)
		if c.Chance(1, 5) {
			limit = n + c.Intn(3) // single batch / exact fit
		}
		hasPrev := c.Chance(3, 4)
		prevH := -1
		var prev base.BlockMap
		prevTok := "-"
		if hasPrev {
			prevH = c.Intn(5)
			pm := c14map{height: prevH, hash: 1000 + prevH, prev: 999 + prevH}
			prev = mk(pm)
			prevTok = fmt.Sprintf("%d.%d.%d", pm.height, pm.hash, pm.prev)
		}
		// a correct chain, then a mutation
		resp := make([]c14map, n)
		for i := range resp {
			h := prevH + 1 + i
			resp[i] = c14map{height: h, hash: 1000 + h, prev: 999 + h}
		}
		kind := "none"
		if n >= 1 {
			switch k := c.Intn(10); {
			case k < 4:
			case k < 6:
				i := c.Intn(n)
				resp[i].prev = 5000 + i
				kind = "wrong-previous"
			case k < 8 && n >= 2:
				i := c.Intn(n)
				j := c.Intn(n)
				if i != j {
					resp[i] = resp[j] // a map of another height returned for the request (duplicate height)
					kind = "wrong-height"
				}
			case k < 9:
				i := c.Intn(n)
				resp[i].height += 1 + c.Intn(n+3)
				kind = "wrong-height-far"
			default:
				if n >= 2 {
					i := c.Intn(n - 1)
					resp[i], resp[i+1] = resp[i+1], resp[i]
					kind = "swapped"
				}
			}
		}
		c.Count("mutation", kind)
		to := base.Height(prevH + n)
		var mu sync.Mutex
		var delivered []int
		delays := make([]int, n)
		for i := range delays {
			delays[i] = c.Intn(4)
		}
		// the maps are built before the call: the fetch callbacks run concurrently and must not share
		// the hash table (a data race here made the check flaky: corrected, see DESIGN "Corrections")
		built := make([]base.BlockMap, n)
		for i := range resp {
			built[i] = mk(resp[i])
		}
		ctx, cancel := context.WithTimeout(context.Background(), 20*time.Second)
		err := base.BatchIsValidMaps(ctx, prev, to, int64(limit),
			func(_ context.Context, h base.Height) (base.BlockMap, error) {
				i := int(h) - prevH - 1
				time.Sleep(time.Duration(delays[i]) * 300 * time.Microsecond)
				return built[i], nil
			},
			func(m base.BlockMap) error {
				mu.Lock()
				delivered = append(delivered, int(m.Manifest().Height()))
				mu.Unlock()
				return nil
			})
		cancel()
		var rt []string
		for _, r := range resp {
			rt = append(rt, fmt.Sprintf("%d.%d.%d", r.height, r.hash, r.prev))
		}
		line := fmt.Sprintf("v %s %d %s", prevTok, limit, strings.Join(rt, " "))
		res := "err"
		if err == nil {
			res = "ok"
		}
		c.Case(line, res)
		// oracle: accepted exactly when heights are the requested ones and each map links to its predecessor
		linked := true
		for i, r := range resp {
			if r.height != prevH+1+i {
				linked = false
			}
			wantPrev := 999 + r.height
			if i == 0 && !hasPrev {
				if r.height == 0 {
					wantPrev = r.prev // genesis: nothing to link to
				}
			}
			if r.prev != wantPrev {
				linked = false
			}
		}
		in := map[string]interface{}{"prev": prevTok, "limit": limit, "responses(height.hash.previous)": rt}
		switch {
		case err == nil && !linked:
			cls := "C14:unlinked-chain-accepted"
			if kind == "wrong-height" || kind == "wrong-height-far" || kind == "swapped" {
				cls = "C14:returned-height-unchecked"
			}
			c.Violation(cls, fmt.Sprintf("%s accepted although the responses are not the linked chain of the requested heights (%s)", line, kind), in)
		case err != nil && linked:
			c.Violation("C14:linked-chain-rejected", fmt.Sprintf("%s rejected: %v", line, err), in)
		}
		if err == nil {
			sort.Ints(delivered)
			okd := len(delivered) == n
			for i := range delivered {
				if okd && delivered[i] != prevH+1+i {
					okd = false
				}
			}
			if !okd && linked {
				c.Violation("C14:not-every-height-delivered", line, in)
			}
		}
		if n > limit {
			c.Nontrivial(line)
		}
		if ci%100 == 0 {
			c.Sample(map[string]interface{}{"case": line, "mutation": kind, "result": res})
		}
	}
	// BatchWork plan itself
	for size := 1; size <= 40; size++ {
		for limit := 1; limit <= 12; limit++ {
			var mu sync.Mutex
			var prefs []string
			seen := map[uint64]uint64{}
			_ = util.BatchWork(context.Background(), int64(size), int64(limit),
				func(_ context.Context, last uint64) error {
					prefs = append(prefs, fmt.Sprint(last))
					return nil
				},
				func(_ context.Context, i, last uint64) error {
					mu.Lock()
					seen[i] = last
					mu.Unlock()
					return nil
				})
			// canonical: batches as first-last
			var bs []string
			first := 0
			for _, p := range prefs {
				var l int
				fmt.Sscan(p, &l)
				bs = append(bs, fmt.Sprintf("%d-%d", first, l))
				for i := first; i <= l; i++ {
					if seen[uint64(i)] != uint64(l) {
						c.Violation("C14:batchwork-job-wrong-last", fmt.Sprintf("size %d limit %d job %d", size, limit, i), nil)
					}
				}
				first = l + 1
			}
			if len(seen) != size {
				c.Violation("C14:batchwork-jobs-missing", fmt.Sprintf("size %d limit %d ran %d jobs", size, limit, len(seen)), nil)
			}
			c.Case(fmt.Sprintf("plan %d %d", size, limit), strings.Join(bs, ","))
		}
	}
	return nil
}
