package main

import (
	"go/ast"
	"strings"
)

func init() { register("C38", genC38) }

// lockedWholeCall: first two statements are `X.Lock()` and `defer X.Unlock()`.
func lockedWholeCall(f *File, fd *ast.FuncDecl) bool {
	if fd == nil || len(fd.Body.List) < 2 {
		return false
	}
	a := normSpace(f.Src(fd.Body.List[0]))
	d, ok := fd.Body.List[1].(*ast.DeferStmt)
	if !ok || !strings.HasSuffix(a, ".Lock()") {
		return false
	}
	return normSpace(f.Src(d.Call)) == strings.TrimSuffix(a, ".Lock()")+".Unlock()"
}

func genC38(o *Out) {
	f := o.pinFile("isaac/proposal_maker.go", "ProposalMaker.PreferEmpty", "ProposalMaker.preferEmpty", "ProposalMaker.Make",
		"ProposalMaker.makeNew", "ProposalMaker.makeProposal")
	o.pinFile("isaac/proposal.go", "NewProposalFact", "NewProposalSignFact")
	if f == nil {
		return
	}
	o.boolean("makeLocked", lockedWholeCall(f, f.Func("ProposalMaker", "Make")))
	o.boolean("preferEmptyLocked", lockedWholeCall(f, f.Func("ProposalMaker", "PreferEmpty")))
	// a proposal that could not be stored is not handed out
	ret := false
	if fd := f.Func("ProposalMaker", "makeProposal"); fd != nil {
		src := normSpace(f.Src(fd.Body))
		ret = strings.Contains(src, "if _, err := p.pool.SetProposal(signfact); err != nil { return sf, err } return signfact, nil")
	} else {
		o.errf("ProposalMaker.makeProposal not found")
	}
	o.boolean("makeReturnsSetProposalError", ret)
}
