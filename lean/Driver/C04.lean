import MitumModel.Common
import MitumModel.Model.BallotCount
import MitumModel.Gen.C04
namespace Mitum.Driver.BallotCountDrv
open Mitum Mitum.BallotCount Mitum.Voteproof

def parseOp (t : String) : Option (Option Op) :=
  match t.splitOn ":" with
  | ["v", id, f] => id.toNat?.map (fun i => some (.vote i f))
  | ["s", id, f] => id.toNat?.map (fun i => some (.voteSF i f))
  | ["c"] => some (some .count)
  | ["k"] => some none
  | _ => none

def insertBy (x : Nat × String) : List (Nat × String) → List (Nat × String)
  | [] => [x]
  | y :: r => if x.1 ≤ y.1 then x :: y :: r else y :: insertBy x r

def sortVotes (l : List (Nat × String)) : List (Nat × String) := l.foldr insertBy []

def describe (vp : VP) : String :=
  let m := match vp.majority with | some f => f | none => "-"
  m ++ "[" ++ ",".intercalate ((sortVotes vp.votes).map (fun v => s!"{v.1}={v.2}")) ++ "]x[]"

end Mitum.Driver.BallotCountDrv

namespace Mitum.Driver
open Mitum Mitum.BallotCount Mitum.Vote

/-- `box <n> <t10> <known> ; <v:id:fact | c | k>…` → everything the box emitted -/
def stepC04 (ts : List String) : String :=
  match ts with
  | "box" :: n :: t :: _ :: ";" :: ops =>
    match n.toNat?, t.toNat?, ops.mapM BallotCountDrv.parseOp with
    | some n, some t10, some ops =>
      let S := (List.range n).map (· + 1)
      let r := run (fun f => f == "E") Gen.C04.keyChecked S t10 keysOf emptyRec (ops.filterMap id)
      if r.emitted.isEmpty then "-" else "+".intercalate (r.emitted.map BallotCountDrv.describe)
    | _, _, _ => "bad-op"
  | _ => "bad-op"
end Mitum.Driver
