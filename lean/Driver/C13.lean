import MitumModel.Common
import MitumModel.Model.SuffrageProof
import MitumModel.Gen.C13
namespace Mitum.Driver
open Mitum Mitum.FixedTree Mitum.SuffrageProof

def c13ids (s : String) : Option (List Bytes) :=
  if s = "" then some [] else (s.splitOn ",").mapM (fun x => x.toNat?.map (fun n => [n]))

/-- `sp <manifestHeight> T:<ids> P:<ids>/<id> st:<height>:<id>:<prev|->:<isSuf>:<sufHeight> prev:<-|id:height:isSuf:sufHeight>` -/
def stepC13 (ts : List String) : String :=
  match ts with
  | ["sp", mh, t, p, st, pv] =>
    let sect := fun (x : String) (n : Nat) => (x.drop n).toString
    match mh.toNat?, c13ids (sect t 2), (sect p 2).splitOn "/", (sect st 3).splitOn ":" with
    | some mh, some tkeys, [pk, pkey], [sh, sk, sp, ss, ssh] =>
      match c13ids pk, pkey.toNat?, sh.toNat?, sk.toNat?, ssh.toNat? with
      | some pkeys, some pkey, some sh, some sk, some ssh =>
        let tM : List (Node SHash) := generate snh tkeys
        let tP : List (Node SHash) := generate snh pkeys
        match extract tP [pkey] with
        | none => "no-proof"
        | some proof =>
          let spv : SP := { manifestHeight := mh, statesTree := childHash tM 0, stHeight := sh, stKey := [sk],
                            stPrev := if sp = "-" then none else sp.toNat?.map (fun n => [n]),
                            isSuffrage := ss = "1", sufHeight := ssh, proof := proof }
          let prev : Option (Option Prev) :=
            if sect pv 5 = "-" then some none
            else match (sect pv 5).splitOn ":" with
              | [k, h, s, sh2] =>
                match k.toNat?, h.toNat?, sh2.toNat? with
                | some k, some h, some sh2 => some (some { hash := [k], height := h, isSuffrage := s = "1", sufHeight := sh2 })
                | _, _, _ => none
              | _ => none
          match prev with
          | none => "bad-op"
          | some prev =>
            if !SuffrageProof.isValid spv then "invalid"
            else match SuffrageProof.prove Gen.C13.rootCompared spv prev with
              | .ok => "ok" | .error => "error" | .panic => "panic"
      | _, _, _, _, _ => "bad-op"
    | _, _, _, _ => "bad-op"
  | _ => "bad-op"

end Mitum.Driver
