/-
Model of util/timers.go (`SimpleTimers`, `SimpleTimer`).

Every registration creates a new *instance*; the table maps a timer id to the
instance registered last under it.  One run of an instance is split at the
points where the real code can be interleaved with other goroutines:

  collect  – `iterate`'s traversal finds the instance expired (`isExpired`, `prepare`)
  check    – `run` takes the timer's lock and tests `ctx.Err()`
  cbStart  – the user callback starts (after `intervalFunc(called+1)`)
  cbEnd    – the callback returns keep / drop / error
  finish   – the worker job removes the timer when `run` said so

`stop` is `removeTimer` (cancel the context, drop the table entry).
Time is a natural number advanced by `tick`.
-/
namespace Mitum.Timers

inductive Phase | idle | collected | failed | checked | running | ended (keep : Bool)
  deriving DecidableEq, Repr

structure Inst where
  id : Nat
  ivl : Nat               -- intervalFunc(0)
  next : Nat              -- intervalFunc(n), n > 0 (0 = one-shot)
  due : Nat               -- expiredLocked
  earliest : Nat          -- ghost: the time the next callback is allowed from (`due` before `prepare` pushes it away)
  cancelled : Bool := false
  phase : Phase := .idle
  called : Nat := 0
  lateStarts : Nat := 0   -- ghost: callback starts that happened while cancelled
  deadAtStop : Bool := false  -- ghost: the stop found no run of this instance past its cancellation check
  deriving Repr

structure St where
  now : Nat := 0
  insts : List Inst := []
  table : Nat → Option Nat := fun _ => none      -- timer id ↦ instance number

inductive Ev
  | new (id ivl next : Nat)
  | stop (id : Nat)
  | tick (d : Nat)
  | collect (k : Nat)
  | check (k : Nat)
  | cbStart (k : Nat)
  | cbEnd (k : Nat) (keep : Bool)
  | finish (k : Nat)

def hour : Nat := 3600000

/-- the interval `prepare` asks for: `intervalFunc(called)` -/
def Inst.curIvl (i : Inst) : Nat := if i.called = 0 then i.ivl else i.next

def setInst (s : St) (k : Nat) (i : Inst) : St := { s with insts := s.insts.set k i }

def unbindId (t : Nat → Option Nat) (id : Nat) : Nat → Option Nat := fun j => if j = id then none else t j
def bindId (t : Nat → Option Nat) (id k : Nat) : Nat → Option Nat := fun j => if j = id then some k else t j

/-- `removeTimer(id)` -/
def removeById (s : St) (id : Nat) : St :=
  match s.table id with
  | none => s
  | some k =>
    match s.insts[k]? with
    | none => { s with table := unbindId s.table id }
    | some i => { setInst s k { i with cancelled := true, deadAtStop := decide (i.phase ≠ .checked) } with table := unbindId s.table id }

/-- the removal done by a finished run: only the instance itself (`sameOnly`, the
repaired code) or whatever is registered under the id (the code before the repair) -/
def removeAfterRun (sameOnly : Bool) (s : St) (k : Nat) (i : Inst) : St :=
  if sameOnly then (if s.table i.id = some k then removeById s i.id else s) else removeById s i.id

def step (sameOnly : Bool) (s : St) : Ev → St
  | .new id ivl next =>
    if ivl = 0 then s
    else { s with insts := s.insts ++ [{ id := id, ivl := ivl, next := next, due := s.now + ivl, earliest := s.now + ivl }],
                  table := bindId s.table id s.insts.length }
  | .stop id => removeById s id
  | .tick d => { s with now := s.now + d }
  | .collect k =>
    match s.insts[k]? with
    | some i =>
      if s.table i.id = some k ∧ i.phase = .idle ∧ i.due < s.now ∧ 0 < i.curIvl then
        setInst s k { i with phase := .collected, due := s.now + hour }
      else s
    | none => s
  | .check k =>
    match s.insts[k]? with
    | some i =>
      if i.phase = .collected then
        setInst s k { i with phase := if i.cancelled then .failed else .checked }
      else s
    | none => s
  | .cbStart k =>
    match s.insts[k]? with
    | some i =>
      if i.phase = .checked then
        setInst s k { i with phase := .running, lateStarts := i.lateStarts + (if i.cancelled then 1 else 0) }
      else s
    | none => s
  | .cbEnd k keep =>
    match s.insts[k]? with
    | some i =>
      if i.phase = .running then
        setInst s k { i with phase := .ended (keep && decide (0 < i.next)), called := i.called + 1,
                             due := s.now + i.next, earliest := s.now + i.next }
      else s
    | none => s
  | .finish k =>
    match s.insts[k]? with
    | some i =>
      match i.phase with
      | .failed => removeAfterRun sameOnly s k i      -- the instance stays failed (it is cancelled)
      | .ended false => removeAfterRun sameOnly (setInst s k { i with phase := .idle }) k i
      | .ended true => setInst s k { i with phase := .idle }
      | _ => s
    | none => s

def run (sameOnly : Bool) (s : St) (evs : List Ev) : St := evs.foldl (step sameOnly) s

end Mitum.Timers
