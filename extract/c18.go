package main

import (
	"go/ast"
	"strings"
)

func init() { register("C18", genC18) }

func genC18(o *Out) {
	f := o.pinFile("isaac/suffrage_builder.go", "NewSuffrageStateBuilder", "SuffrageStateBuilder.Build", "SuffrageStateBuilder.buildBatch", "SuffrageStateBuilder.prove")
	o.pinFile("util/worker.go", "BatchWork")
	// the contract the model assumes of a proof's Prove (it links a proof to the state before it, and a genesis proof to
	// its own tree): the real one is verified under C13, its source is pinned here as well
	o.pinFile("isaac/block/suffrage.go", "SuffrageProof.Prove")
	if f == nil {
		return
	}
	guard, chk, acc := false, false, false
	limit := int64(0)
	if fd := f.Func("SuffrageStateBuilder", "prove"); fd != nil {
		ast.Inspect(fd.Body, func(n ast.Node) bool {
			if is, ok := n.(*ast.IfStmt); ok {
				c := normSpace(f.Src(is.Cond))
				if strings.Contains(c, "index < 0") && strings.Contains(c, "index >= int64(len(proofs))") && strings.Contains(f.Src(is.Body), "return") {
					guard = true
				}
			}
			return true
		})
	}
	if fd := f.Func("SuffrageStateBuilder", "buildBatch"); fd != nil {
		ast.Inspect(fd.Body, func(n ast.Node) bool {
			if cc, ok := n.(*ast.CaseClause); ok && len(cc.List) == 1 {
				c := normSpace(f.Src(cc.List[0]))
				if c == "proof.SuffrageHeight() != height" && strings.Contains(f.Src(cc), "return") {
					chk = true
				}
			}
			return true
		})
		rs := returnsOf(fd)
		appendInPref := strings.Contains(normSpace(f.Src(fd.Body)), "allproofs = append(allproofs, proofs...)")
		for _, r := range rs {
			if len(r.Results) == 2 && normSpace(f.Src(r.Results[0])) == "append(allproofs, proofs...)" && appendInPref {
				acc = true
			}
		}
	}
	if fd := f.Func("", "NewSuffrageStateBuilder"); fd != nil {
		ast.Inspect(fd.Body, func(n ast.Node) bool {
			if kv, ok := n.(*ast.KeyValueExpr); ok {
				if id, ok := kv.Key.(*ast.Ident); ok && id.Name == "batchlimit" {
					if v, ok := intLit(f.Src(kv.Value)); ok {
						limit = v
					}
				}
			}
			return true
		})
	}
	if limit == 0 {
		o.errf("suffrage_builder.go: batchlimit literal not found")
	}
	o.boolean("guardsNegativeIndex", guard)
	o.boolean("checksReturnedHeight", chk)
	o.boolean("accumulatesBatches", acc)
	o.nat("batchlimit", limit)
}
