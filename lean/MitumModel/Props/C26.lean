import MitumModel.Props.C19
import MitumModel.Props.C20
import MitumModel.Gen.C26
import MitumModel.Pins
/-!
C26  Redis-backed permanent store behaves like the leveldb one.

Both back-ends are decided against ONE specification: the reads of the committed chain (the C19 spec,
`Mitum.Center`), whose refinement theorems are C19's and whose reopen theorem is C20's.  What is proved
here is only the glue: stores that both answer as the specification does answer alike.  That each real
back-end answers as the specification does is the differential tie (level: partial).
-/
namespace Mitum.C26

/-- two stores whose every read, after every history, is the specification's read of that history
answer every read alike -/
theorem two_refinements_agree {H Q A : Type} (spec a b : H → Q → A)
    (ha : ∀ h q, a h q = spec h q) (hb : ∀ h q, b h q = spec h q) : ∀ h q, a h q = b h q :=
  fun h q => (ha h q).trans (hb h q).symm

/-- and so do they after reopening, when reopening changes no read of either (C20) -/
theorem agree_after_reopen {H Q A : Type} (a b a' b' : H → Q → A)
    (hab : ∀ h q, a h q = b h q) (ra : ∀ h q, a' h q = a h q) (rb : ∀ h q, b' h q = b h q) :
    ∀ h q, a' h q = b' h q :=
  fun h q => ((ra h q).trans (hab h q)).trans (rb h q).symm

/-- a cache that is not purged on merge breaks the refinement: the store keeps answering with the state of
an older block (the defect of the Redis-backed store before the repair), modelled on one key -/
def readState (purges : Bool) (cached : Option Nat) (merged : List Nat) : Option Nat :=
  match (if purges then none else cached) with
  | some v => some v
  | none => merged.getLast?

theorem stale_cache_witness :
    readState false (some 1) [1, 3] = some 1 ∧ readState true (some 1) [1, 3] = some 3 := by decide

theorem purge_refines (cached : Option Nat) (merged : List Nat) : readState true cached merged = merged.getLast? := by
  simp [readState]

theorem facts_ok :
    Gen.C26.redisPurgesStateCache = true ∧ Gen.C26.leveldbPurgesStateCache = true ∧
    Gen.C26.bothUpdateLastAndCaches = true ∧ Gen.C26.extractErrors = [] := by decide

theorem source_pinned : Gen.C26.pins = Pins.C26 := by decide

end Mitum.C26
