import MitumModel.Common
/-
Model of `util.BaseJobWorker` (util/worker.go): a weighted semaphore of size
`semSize`, `NewJob` (acquire one, spawn), job completion (on error: cancel the
context with the error as cause — the first cause wins — then release),
`Done` (no more new jobs) and `Wait`.  One event = one atomic step; a blocked
call is an event that is not enabled (the state does not change).
-/
namespace Mitum.Worker

structure W where
  semSize : Nat
  running : List Nat                 -- accepted, not yet finished
  finished : List (Nat × Option Nat) -- (job, error) in completion order
  accepted : List Nat                -- in acceptance order
  cause : Option Nat                 -- cancel cause of the worker context (write-once)
  done : Bool
  /-- cancel cause of the context `NewJob` looks at (write-once): `some none` = Done, `some (some e)` = job error -/
  njCause : Option (Option Nat) := none
deriving Repr

def init (semSize : Nat) : W := { semSize := semSize, running := [], finished := [], accepted := [], cause := none, done := false }

inductive Ev where
  | newJob (j : Nat)
  | finish (j : Nat) (err : Option Nat)
  | done
  | wait
deriving Repr, DecidableEq

inductive Res where
  | accepted | rejected | blocked | ok | waitNil | waitErr (e : Nat)
deriving Repr, DecidableEq

def step (w : W) : Ev → W × Res
  | .newJob j =>
    if w.cause.isSome || w.done then (w, .rejected)
    else if w.running.length < w.semSize then
      ({ w with running := w.running ++ [j], accepted := w.accepted ++ [j] }, .accepted)
    else (w, .blocked)
  | .finish j err =>
    if j ∈ w.running then
      ({ w with running := w.running.filter (fun x => !(x = j)), finished := w.finished ++ [(j, err)],
                cause := match w.cause with | some c => some c | none => err,
                njCause := match w.njCause with | some c => some c | none => err.map some }, .ok)
    else (w, .blocked)
  | .done => ({ w with done := true, njCause := match w.njCause with | some c => some c | none => some none }, .ok)
  | .wait =>
    match w.cause with
    | some e => (w, .waitErr e)
    | none => if w.done && w.running.isEmpty then (w, .waitNil) else (w, .blocked)

def run (w : W) (evs : List Ev) : W := evs.foldl (fun s e => (step s e).1) w

/-- the first error among completed jobs, in completion order -/
def firstErr : List (Nat × Option Nat) → Option Nat
  | [] => none
  | (_, some e) :: _ => some e
  | (_, none) :: rest => firstErr rest

end Mitum.Worker
