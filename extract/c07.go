package main

func init() { register("C07", genC07) }

func genC07(o *Out) {
	o.pinFile("isaac/proposal_selector.go", "BaseProposalSelector.getNodes", "BaseProposalSelector.selectInternal", "BaseProposalSelector.selectFromProposer")
	o.pinFile("isaac/proposer_selector.go", "BlockBasedProposerSelector.Select")
}
