package main

import (
	"go/ast"
	"strings"
)

func init() { register("C29", genC29) }

// C29: limits, whether the over-limit branch of ReadLengthedBytesSlice returns
// a non-nil error expression, whether WriteLengthedSlice guards the count, pins.
func genC29(o *Out) {
	f := o.pinFile("util/bytes.go", "EnsureRead", "WriteLengthed", "ReadLengthedBytes", "ReadLengthBytes", "ReadLength",
		"ReadLengthed", "WriteLengthedSlice", "ReadLengthedBytesSlice", "ReadLengthedSlice", "NewLengthedBytesSlice",
		"BytesFrameWriter.Header", "BytesFrameReader.Header")
	o.pinFile("util/int.go", "Uint64ToBytes", "uint64ToBytes", "BytesToUint64")
	if f == nil {
		return
	}
	lim := func(goName, leanName string) {
		src, ok := f.ConstValue(goName)
		v := int64(0)
		switch {
		case !ok:
			o.errf("util/bytes.go: %s not found", goName)
		case strings.TrimSpace(src) == "math.MaxInt16":
			v = 32767
		case strings.TrimSpace(src) == "math.MaxInt32":
			v = 2147483647
		default:
			if n, ok := intLit(src); ok {
				v = n
			} else {
				o.errf("util/bytes.go: %s = %s not understood", goName, src)
			}
		}
		o.nat(leanName, v)
	}
	lim("maxLengthBytes", "maxLengthBytes")
	lim("maxLengthedBytes", "maxLengthedBytes")
	// over-limit branch of ReadLengthedBytesSlice: `case i > maxLengthBytes: return nil, nil, <expr>`
	hugeErr := false
	if fd := f.Func("", "ReadLengthedBytesSlice"); fd != nil {
		ast.Inspect(fd.Body, func(n ast.Node) bool {
			cc, ok := n.(*ast.CaseClause)
			if !ok || len(cc.List) != 1 {
				return true
			}
			if normSpace(f.Src(cc.List[0])) != "i > maxLengthBytes" {
				return true
			}
			for _, st := range cc.Body {
				if rs, ok := st.(*ast.ReturnStmt); ok && len(rs.Results) == 3 {
					e := normSpace(f.Src(rs.Results[2]))
					// `err` here is the nil error of the preceding case; anything constructing an error counts
					hugeErr = strings.Contains(e, "Errorf(") || strings.Contains(e, "errors.New(") || strings.Contains(e, ".Wrap")
				}
			}
			return true
		})
	} else {
		o.errf("util/bytes.go: ReadLengthedBytesSlice not found")
	}
	o.boolean("hugeBranchReturnsError", hugeErr)
	guard := false
	if fd := f.Func("", "WriteLengthedSlice"); fd != nil {
		for _, st := range fd.Body.List {
			if is, ok := st.(*ast.IfStmt); ok && normSpace(f.Src(is.Cond)) == "len(m) > maxLengthBytes" {
				for _, b := range is.Body.List {
					if rs, ok := b.(*ast.ReturnStmt); ok && len(rs.Results) == 1 && strings.Contains(f.Src(rs.Results[0]), "Errorf(") {
						guard = true
					}
				}
			}
		}
	}
	o.boolean("writerGuardsCount", guard)
}
