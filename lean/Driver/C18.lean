import MitumModel.Common
import MitumModel.Model.SuffrageBuilder
import MitumModel.Gen.C18
namespace Mitum.Driver
open Mitum Mitum.SuffrageBuilder Mitum.BlockMaps

def c18Facts : Facts :=
  { guardNegative := Gen.C18.guardsNegativeIndex, checkHeight := Gen.C18.checksReturnedHeight,
    accumulates := Gen.C18.accumulatesBatches, limit := Gen.C18.batchlimit }

/-- identity of the state of (chain, height); `prev` of a proof = identity of (chain, height-1) -/
def c18Id (chain h : Nat) : Nat := 2 * h + chain + 10
def c18BM (chain h : Nat) : BM := { height := h, hash := c18Id chain h, prev := if h = 0 then 0 else c18Id chain (h - 1) }

/-- `b <local|-1> <last> <lastBlockNewer 0|1> <resp…>`, resp = `-` or `chain.height` per requested height local+1..;
`g.0` is a genesis proof that fails its own `Prove` (a real proof with a foreign tree proof).  The model's proofs fail
`Prove` only through their link; for `Build` a response whose job fails is a failed batch whatever the reason, so such a
proof is given to the model as the other failing response, "not found". -/
def stepC18 (ts : List String) : String :=
  match ts with
  | "b" :: loc :: last :: newer :: resps =>
    match loc.toInt?, last.toNat? with
    | some loc, some last =>
      let locBM : Option BM := if loc < 0 then none else some (c18BM 0 loc.toNat)
      let frm := if loc < 0 then 0 else loc.toNat + 1
      let parsed : List (Option BM) := resps.map (fun r =>
        match (r.splitOn ".").mapM String.toNat? with
        | some [c, h] => some (c18BM c h)
        | _ => none)
      let resp := fun (h : Nat) => if h < frm then none else (parsed[h - frm]?).getD none
      match build c18Facts locBM (c18BM 0 last) resp (newer == "1") with
      | .ok hs => "ok " ++ ",".intercalate (hs.map (fun o => match o with | some h => toString h | none => "nil"))
      | .err => "err"
      | .panic => "panic"
    | _, _ => "bad-op"
  | _ => "bad-op"

end Mitum.Driver
