import MitumModel.Common
/-
Model of what the permanent database keeps in memory for its "last" reads and of
how it is rebuilt from disk when the storage is opened again
(isaac/database/perm_leveldb.go: loadLastBlockMap, loadLastSuffrageProof,
loadNetworkPolicy).  A stored record is a frame (encoder hint, hdr header, body);
the in-memory copy is (decoded object, hdr, body): the object is served to local
readers, hdr and body are served as bytes to peers.
-/
namespace Mitum.Reopen

abbrev Bytes := List Nat

structure Frame where
  enchint : String
  hdr : Bytes
  body : Bytes
deriving Repr, DecidableEq

structure Cached where
  obj : Bytes          -- the decoded object, identified by the body it was decoded from
  hdr : Bytes
  body : Bytes
deriving Repr, DecidableEq

/-- what a write leaves in memory and on disk -/
def persist (f : Frame) : Cached × Frame := ({ obj := f.body, hdr := f.hdr, body := f.body }, f)

/-- a loader; `keepsBody` says whether it assigns the frame's body to the in-memory copy -/
def load (keepsBody : Bool) (f : Frame) : Cached := { obj := f.body, hdr := f.hdr, body := if keepsBody then f.body else [] }

/-- the reads of the property: the object and the raw bytes -/
def readObject (c : Cached) : Bytes := c.obj
def readBytes (c : Cached) : Bytes × Bytes := (c.hdr, c.body)

end Mitum.Reopen
