package main

import "regexp"

func init() { register("C05", genC05) }

func genC05(o *Out) {
	f := o.pinFile("isaac/states/ballotbox.go", "Ballotbox.voterecords", "Ballotbox.newVoterecords", "Ballotbox.clean", "Ballotbox.unfinishedVoterecords",
		"Ballotbox.countVoterecords", "Ballotbox.vote", "Ballotbox.isNewBallot", "newVoterecords", "Ballotbox.Voted", "Ballotbox.MissingNodes")
	if f == nil {
		return
	}
	re := regexp.MustCompile(`key = "([^"]*)" \+ key`)
	lit := func(recv, name string) string {
		fd := f.Func(recv, name)
		if fd == nil {
			return ""
		}
		m := re.FindAllStringSubmatch(normSpace(f.Src(fd.Body)), -1)
		if len(m) != 1 {
			o.errf("ballotbox.go: %s: expected one suffrage-confirm key prefix, found %d", name, len(m))
			return ""
		}
		return m[0][1]
	}
	o.str("scPrefixInsert", lit("Ballotbox", "newVoterecords"))
	o.str("scPrefixLookup", lit("Ballotbox", "voterecords"))
	o.str("scPrefixRemove", lit("Ballotbox", "clean"))
}
