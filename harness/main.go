// Correspondence harness: drives the real mitum code with seeded inputs and
// writes, per property, the line-protocol input for the Lean driver
// (ops.txt), the canonical result of the real code (impl.txt), the verdicts of
// the property oracle evaluated on the real code (violations.jsonl) and the
// exploration statistics (stats.json).
package main

import (
	"bufio"
	"crypto/sha256"
	"encoding/hex"
	"encoding/json"
	"fmt"
	"os"
	"path/filepath"
	"sort"
	"strconv"
)

type Violation struct {
	Class  string      `json:"class"`
	Detail string      `json:"detail"`
	Input  interface{} `json:"input"`
}

type Ctx struct {
	Prop       string
	Tier       string
	Seed       uint64
	Out        string
	Replay     string
	rng        uint64
	ops        *bufio.Writer
	impl       *bufio.Writer
	opsF       *os.File
	implF      *os.File
	viol       *os.File
	cases      int
	evals      int
	nviol      int
	nviolClass map[string]int
	hist       map[string]map[string]int
	samples    []interface{}
	nontriv    map[string]struct{}
	notes      []string
	extra      map[string]interface{}
}

func (c *Ctx) Thorough() bool { return c.Tier == "thorough" }

// splitmix64
func (c *Ctx) U64() uint64 {
	c.rng += 0x9e3779b97f4a7c15
	z := c.rng
	z = (z ^ (z >> 30)) * 0xbf58476d1ce4e5b9
	z = (z ^ (z >> 27)) * 0x94d049bb133111eb
	return z ^ (z >> 31)
}

func (c *Ctx) Intn(n int) int {
	if n <= 0 {
		return 0
	}
	return int(c.U64() % uint64(n))
}

func (c *Ctx) Bool() bool { return c.U64()&1 == 1 }

// Chance returns true with probability num/den.
func (c *Ctx) Chance(num, den int) bool { return c.Intn(den) < num }

func (c *Ctx) Bytes(n int) []byte {
	b := make([]byte, n)
	for i := range b {
		b[i] = byte(c.U64())
	}
	return b
}

func (c *Ctx) Perm(n int) []int {
	p := make([]int, n)
	for i := range p {
		p[i] = i
	}
	for i := n - 1; i > 0; i-- {
		j := c.Intn(i + 1)
		p[i], p[j] = p[j], p[i]
	}
	return p
}

// Case records one correspondence case: the line sent to the Lean driver and
// the canonical result of the real implementation.
func (c *Ctx) Case(opsLine, implLine string) {
	c.cases++
	c.evals++
	fmt.Fprintln(c.ops, c.Prop+" "+opsLine)
	fmt.Fprintln(c.impl, implLine)
}

// Eval counts an evaluation of the real code that is checked by the oracle
// only (not sent to the Lean driver).
func (c *Ctx) Eval(n int) { c.evals += n }

func (c *Ctx) Count(hist, key string) {
	m := c.hist[hist]
	if m == nil {
		m = map[string]int{}
		c.hist[hist] = m
	}
	m[key]++
}

func (c *Ctx) CountN(hist, key string, n int) {
	m := c.hist[hist]
	if m == nil {
		m = map[string]int{}
		c.hist[hist] = m
	}
	m[key] += n
}

func (c *Ctx) Sample(x interface{}) {
	if len(c.samples) < 6 {
		c.samples = append(c.samples, x)
	}
}

// Nontrivial registers a distinct non-trivial case by its canonical text.
func (c *Ctx) Nontrivial(key string) {
	h := sha256.Sum256([]byte(key))
	c.nontriv[hex.EncodeToString(h[:8])] = struct{}{}
}

func (c *Ctx) Note(s string) { c.notes = append(c.notes, s) }

func (c *Ctx) Extra(k string, v interface{}) { c.extra[k] = v }

func (c *Ctx) Violation(class, detail string, input interface{}) {
	// the cap is per class: a frequent (e.g. known) class must never crowd out another one
	c.nviol++
	if c.nviolClass == nil {
		c.nviolClass = map[string]int{}
	}
	c.nviolClass[class]++
	if c.nviolClass[class] > 200 {
		return
	}
	b, _ := json.Marshal(Violation{Class: class, Detail: detail, Input: input})
	c.viol.Write(append(b, '\n'))
}

func (c *Ctx) open() error {
	if err := os.MkdirAll(c.Out, 0o755); err != nil {
		return err
	}
	var err error
	if c.opsF, err = os.Create(filepath.Join(c.Out, "ops.txt")); err != nil {
		return err
	}
	if c.implF, err = os.Create(filepath.Join(c.Out, "impl.txt")); err != nil {
		return err
	}
	if c.viol, err = os.Create(filepath.Join(c.Out, "violations.jsonl")); err != nil {
		return err
	}
	c.ops = bufio.NewWriterSize(c.opsF, 1<<20)
	c.impl = bufio.NewWriterSize(c.implF, 1<<20)
	return nil
}

func (c *Ctx) close() error {
	c.ops.Flush()
	c.impl.Flush()
	c.opsF.Close()
	c.implF.Close()
	c.viol.Close()
	hist := map[string]interface{}{}
	for k, m := range c.hist {
		// keep histograms small: top 40 keys
		type kv struct {
			k string
			v int
		}
		var kvs []kv
		for a, b := range m {
			kvs = append(kvs, kv{a, b})
		}
		sort.Slice(kvs, func(i, j int) bool {
			if kvs[i].v != kvs[j].v {
				return kvs[i].v > kvs[j].v
			}
			return kvs[i].k < kvs[j].k
		})
		if len(kvs) > 40 {
			kvs = kvs[:40]
		}
		mm := map[string]int{}
		for _, e := range kvs {
			mm[e.k] = e.v
		}
		hist[k] = mm
	}
	st := map[string]interface{}{
		"cases":               c.cases,
		"evaluations":         c.evals,
		"distinct_nontrivial": len(c.nontriv),
		"violations":          c.nviol,
		"distribution":        hist,
		"samples":             c.samples,
		"notes":               c.notes,
		"extra":               c.extra,
	}
	b, _ := json.MarshalIndent(st, "", " ")
	return os.WriteFile(filepath.Join(c.Out, "stats.json"), b, 0o644)
}

type propFunc func(c *Ctx) error

var props = map[string]propFunc{}

func register(id string, f propFunc) { props[id] = f }

func main() {
	if len(os.Args) < 2 {
		fmt.Fprintln(os.Stderr, "usage: harness <Cxx> [--tier quick|thorough] [--seed N] [--out dir] [--replay file] | harness child <name> ...")
		os.Exit(2)
	}
	if os.Args[1] == "child" {
		os.Exit(runChild(os.Args[2:]))
	}
	c := &Ctx{Prop: os.Args[1], Tier: "quick", Seed: 1, Out: "work/" + os.Args[1],
		hist: map[string]map[string]int{}, nontriv: map[string]struct{}{}, extra: map[string]interface{}{}}
	for i := 2; i < len(os.Args); i++ {
		switch os.Args[i] {
		case "--tier":
			i++
			c.Tier = os.Args[i]
		case "--seed":
			i++
			s, err := strconv.ParseUint(os.Args[i], 10, 64)
			if err != nil {
				s = 1
			}
			c.Seed = s
		case "--out":
			i++
			c.Out = os.Args[i]
		case "--replay":
			i++
			c.Replay = os.Args[i]
		}
	}
	c.rng = c.Seed*0x2545F4914F6CDD1D + 0x1234567
	f, ok := props[c.Prop]
	if !ok {
		fmt.Fprintln(os.Stderr, "unknown property", c.Prop)
		os.Exit(2)
	}
	if err := c.open(); err != nil {
		fmt.Fprintln(os.Stderr, err)
		os.Exit(2)
	}
	err := f(c)
	if cerr := c.close(); cerr != nil && err == nil {
		err = cerr
	}
	if err != nil {
		fmt.Fprintln(os.Stderr, "harness error:", err)
		os.Exit(3)
	}
}

// child-process cases (code that panics inside its own goroutines)
type childFunc func(args []string) int

var children = map[string]childFunc{}

func registerChild(name string, f childFunc) { children[name] = f }

func runChild(args []string) int {
	if len(args) < 1 {
		return 2
	}
	f, ok := children[args[0]]
	if !ok {
		return 2
	}
	return f(args[1:])
}
