import MitumModel.Common
import MitumModel.Model.SuffrageOps
namespace Mitum.Driver.SufOpsDrv
open Mitum Mitum.SuffrageOps

/-- `CheckFactSignsBySuffrage`: `(sign/float64(n))*100 < threshold` fails -/
def signOKFloat (s n t10 : Nat) : Bool :=
  !((Float.ofNat s / Float.ofNat n) * 100 < Float.ofNat t10 / 10)

def nums (s : String) (sep : String) : Option (List Nat) := (s.splitOn sep).mapM (·.toNat?)

def members? (s : String) : Option (List Member) :=
  if s = "" then some [] else (s.splitOn ",").mapM (fun e => match nums e "." with
    | some [a, k, st] => some { addr := a, key := k, start := st }
    | _ => none)

def cands? (s : String) : Option (List Cand) :=
  if s = "" then some [] else (s.splitOn ",").mapM (fun e => match nums e "." with
    | some [a, k, st, d] => some { addr := a, key := k, start := st, deadline := d }
    | _ => none)

def op? (t : String) : Option Op :=
  match t.splitOn ":" with
  | ["j", c, st, sg] =>
    match c.toNat?, st.toNat?, (if sg = "" then some [] else (sg.splitOn "/").mapM (fun p => match nums p "." with
        | some [a, k] => some (a, k) | _ => none)) with
    | some c, some st, some sg => some (.join c st sg)
    | _, _, _ => none
  | ["d", n, st, k] => match n.toNat?, st.toNat?, k.toNat? with
    | some n, some st, some k => some (.disjoin n st k) | _, _, _ => none
  | ["x", n, s, e] => match n.toNat?, s.toNat?, e.toNat? with
    | some n, some s, some e => some (.expel n s e) | _, _, _ => none
  | _ => none

end Mitum.Driver.SufOpsDrv
namespace Mitum.Driver
open Mitum Mitum.SuffrageOps Mitum.Driver.SufOpsDrv

/-- `blk <height> <sufHeight> <t10> M:<addr.key.start,…> C:<addr.key.start.deadline,…> ; <ops…>`;
`sign <s> <n> <t10>` → the sign test alone -/
def stepC17 (ts : List String) : String :=
  match ts with
  | ["sign", s, n, t] =>
    match s.toNat?, n.toNat?, t.toNat? with
    | some s, some n, some t => boolStr (signOKFloat s n t)
    | _, _, _ => "bad-op"
  | "blk" :: h :: sh :: t :: m :: c :: ";" :: ops =>
    match h.toNat?, sh.toNat?, t.toNat?, members? (m.drop 2).toString, cands? (c.drop 2).toString, ops.mapM op? with
    | some h, some sh, some t, some ms, some cs, some ops =>
      let b : Blk := { height := h, members := ms, sufHeight := sh, cands := cs, t10 := t }
      match applyBlock signOKFloat b ops with
      | none => "-"
      | some (nh, nms) => s!"{nh} " ++ ",".intercalate (nms.map (fun x => s!"{x.addr}.{x.key}.{x.start}"))
    | _, _, _, _, _, _ => "bad-op"
  | _ => "bad-op"
end Mitum.Driver
