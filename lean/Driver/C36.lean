import MitumModel.Common
import MitumModel.Model.RateLimit
namespace Mitum.Driver
open Mitum Mitum.RateLimit

def tyStr : Ty → String
  | .clientid => "clientid" | .net => "net" | .node => "node" | .suffrage => "suffrage"
  | .defaultmap => "defaultmap" | .default => "default"

def c36AddrNets : List (List Nat) := [[0, 1], [0], [2], []]

def kvList (s : String) : Option (List (String × Nat)) :=
  if s = "" then some [] else
  (s.splitOn ",").mapM (fun e => match e.splitOn "=" with
    | [k, v] => v.toNat?.map (fun n => (k, n))
    | _ => none)

/-- `seq C:<id=b,…|-> N:<net=b,…|-> D:<node=b,…|-> S:<b>/<members> M:<b> ; n:<addr>:<node> r:<addr>:<cid|->` -/
def stepC36 (ts : List String) : String :=
  match ts with
  | "seq" :: c :: n :: d :: s :: m :: ";" :: ops =>
    let sect := fun (t : String) => (t.drop 2).toString
    let optKV := fun (t : String) => if sect t = "-" then some none else (kvList (sect t)).map some
    match optKV c, optKV n, optKV d, (sect s).splitOn "/", (sect m).toNat? with
    | some cs, some ns, some ds, [sb, mem], some mb =>
      let rs : Rules := {
        clientids := cs,
        nets := ns.map (fun l => l.map (fun e => (e.1.toNat!, if e.2 = 0 then none else some e.2))),
        nodes := ds,
        suffrage := if sb = "0" then none else sb.toNat?,
        members := if mem = "" then [] else mem.splitOn ",",
        defaultMap := some mb, builtin := 33 }
      let step := fun (acc : (List (Nat × (Ty × Nat))) × (List (Nat × String)) × List String) (t : String) =>
        match t.splitOn ":" with
        | ["n", a, nd] =>
          match a.toNat? with
          | some a =>
            -- `addrPool.addNode`: only for an address that already has a limiter, and only the first node
            if (acc.1.any (fun e => e.1 = a)) && !(acc.2.1.any (fun e => e.1 = a)) then
              (acc.1, (a, nd) :: acc.2.1, acc.2.2 ++ ["-"])
            else (acc.1, acc.2.1, acc.2.2 ++ ["-"])
          | none => (acc.1, acc.2.1, acc.2.2 ++ ["bad-op"])
        | ["r", a, cid] =>
          match a.toNat? with
          | some a =>
            let q : Req := { addrNets := c36AddrNets.getD a [], clientid := if cid = "-" then "" else cid,
                             node := (acc.2.1.find? (fun e => e.1 = a)).map (·.2) }
            let cached := (acc.1.find? (fun e => e.1 = a)).map (·.2)
            let r := cachedSelect rs cached q
            ((a, r) :: acc.1.filter (fun e => e.1 ≠ a), acc.2.1, acc.2.2 ++ [tyStr r.1 ++ "/" ++ toString r.2])
          | none => (acc.1, acc.2.1, acc.2.2 ++ ["bad-op"])
        | _ => (acc.1, acc.2.1, acc.2.2 ++ ["bad-op"])
      joinSp (ops.foldl step ([], [], [])).2.2
    | _, _, _, _, _ => "bad-op"
  | _ => "bad-op"

end Mitum.Driver
