import Driver.Basic
import Driver.C35
import Driver.C01
import Driver.C03
import Driver.C04
import Driver.C05
import Driver.C06
import Driver.C07
import Driver.C08
import Driver.C09
import Driver.C28
import Driver.C29
import Driver.C30
import Driver.Pool
import Driver.C25
import Driver.C31
import Driver.C37
import Driver.C10
import Driver.C11
import Driver.C12
import Driver.C13
import Driver.C14
import Driver.C15
import Driver.C16
import Driver.C17
import Driver.C18
import Driver.C19
import Driver.C20
import Driver.C27
import Driver.C36
import Driver.C33
import Driver.C32
import Driver.C34
open Mitum Mitum.Driver

def step (line : String) : String :=
  match tokens line with
  | "C01" :: ts => stepC01 ts
  | "C02" :: ts => stepC02 ts
  | "C03" :: ts => stepC03 ts
  | "C04" :: ts => stepC04 ts
  | "C05" :: ts => stepC05 ts
  | "C06" :: ts => stepC06 ts
  | "C07" :: ts => stepC07 ts
  | "C08" :: ts => stepC08 ts
  | "C09" :: ts => stepC09 ts
  | "C10" :: ts => stepC10 ts
  | "C11" :: ts => stepC11 ts
  | "C12" :: ts => stepC12 ts
  | "C13" :: ts => stepC13 ts
  | "C14" :: ts => stepC14 ts
  | "C15" :: ts => stepC15 ts
  | "C16" :: ts => stepC16 ts
  | "C17" :: ts => stepC17 ts
  | "C18" :: ts => stepC18 ts
  | "C19" :: ts => stepC19 ts
  | "C20" :: ts => stepC20 ts
  | "C21" :: ts => stepC19 ts
  | "C22" :: ts => stepC22 ts
  | "C23" :: ts => stepC23 ts
  | "C24" :: ts => stepC24 ts
  | "C25" :: ts => stepC25 ts
  | "C26" :: ts => stepC19 ts
  | "C27" :: ts => stepC27 ts
  | "C28" :: ts => stepC28 ts
  | "C29" :: ts => stepC29 ts
  | "C30" :: ts => stepC30 ts
  | "C31" :: ts => stepC31 ts
  | "C32" :: ts => stepC32 ts
  | "C33" :: ts => stepC33 ts
  | "C34" :: ts => stepC34 ts
  | "C35" :: ts => stepC35 ts
  | "C36" :: ts => stepC36 ts
  | "C37" :: ts => stepC37 ts
  | "C38" :: ts => stepC38 ts
  | _ => "bad-op"

partial def loop (h : IO.FS.Stream) (out : IO.FS.Stream) : IO Unit := do
  let line ← h.getLine
  if line.isEmpty then return ()
  let l := line.trimAsciiEnd.toString
  out.putStrLn (step l)
  loop h out

def main : IO Unit := do
  let stdin ← IO.getStdin
  let stdout ← IO.getStdout
  loop stdin stdout
  stdout.flush
