package main

import "strings"

func init() { register("C04", genC04) }

func genC04(o *Out) {
	f := o.pinFile("isaac/states/ballotbox.go", "Ballotbox.Vote", "Ballotbox.VoteSignFact", "Ballotbox.vote", "Ballotbox.checkBallot", "Ballotbox.countVoterecords",
		"voterecords.vote", "voterecords.isVoted", "voterecords.count", "voterecords.countFromBallots", "voterecords.countFromVoted", "voterecords.isValidBallot",
		"voterecords.newVoteproof", "voterecords.sfs", "voterecords.countWithExpels", "voterecords.voteproofFromBallots", "sortBallotSignFactsByExpels", "extractExpelsFromBallot")
	g := o.pinFile("isaac/voteproof_isvalid.go", "IsValidVoteproofWithSuffrage")
	_ = o.pinFile("isaac/suffrage.go", "NewSuffrageWithExpels")
	if f == nil || g == nil {
		return
	}
	body := func(fl *File, recv, name string) string {
		d := fl.Func(recv, name)
		if d == nil {
			o.errf("%s.%s not found", recv, name)
			return ""
		}
		return normSpace(fl.Src(d.Body))
	}
	v := body(f, "voterecords", "vote")
	// the signer's key is compared with the suffrage's before the sign fact enters `voted`
	i1 := strings.Index(v, "!suf.ExistsPublickey(node, signfact.Signer())")
	i2 := strings.Index(v, "vr.voted[node.String()] = signfact")
	o.boolean("keyChecked", i1 >= 0 && i2 > i1 && strings.Contains(v[i1:i2], "return false, false, nil"))
	o.boolean("deferredKeyChecked", strings.Contains(body(f, "voterecords", "isValidBallot"), "if !suf.ExistsPublickey(signfact.Node(), signfact.Signer()) {") &&
		strings.Contains(body(f, "voterecords", "countFromBallots"), "if err := vr.isValidBallot(signfact, suf); err == nil { vr.voted[signfact.Node().String()] = signfact }"))
	o.boolean("oneVotePerNode", strings.Contains(v, "case vr.isVoted(node): return false, false, nil") && strings.Contains(v, "case vr.vp != nil: return false, false, nil"))
	o.boolean("voteUnderLock", strings.HasPrefix(v, "{ vr.Lock() defer vr.Unlock()") && strings.HasPrefix(body(f, "voterecords", "count"), "{ vr.Lock() defer vr.Unlock()"))
	cv := body(f, "Ballotbox", "countVoterecords")
	o.boolean("countSerialised", strings.HasPrefix(cv, "{ box.countLock.Lock() defer box.countLock.Unlock()"))
	cf := body(f, "voterecords", "countFromVoted")
	o.boolean("plainCountIsRecount", strings.Contains(cf, "switch result, majoritykey := threshold.VoteResult(uint(suf.Len()), set); result {") &&
		strings.Contains(cf, "case base.VoteResultMajority: majority = m[majoritykey]") && strings.Contains(cf, "vr.vp = vr.newVoteproof(sfs, majority, threshold, nil)"))
	// the two rules for counting with expels: the box reduces the suffrage only above f, the validator always
	cw := body(f, "voterecords", "countWithExpels")
	o.boolean("boxReducesOnlyAboveF", strings.Contains(cw, "if uint(len(wfacts)) > quorum-base.DefaultThreshold.Threshold(quorum) { newthreshold = base.MaxThreshold quorum = uint(suf.Len() - len(wfacts)) }"))
	vv := body(g, "", "IsValidVoteproofWithSuffrage")
	o.boolean("validatorAlwaysReduces", strings.Contains(vv, "switch i, err := NewSuffrageWithExpels(suf, vp.Threshold(), expels); {") && strings.Contains(vv, "rsuf = i th = base.MaxThreshold"))
}
