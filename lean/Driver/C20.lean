import MitumModel.Common
import MitumModel.Model.Reopen
import MitumModel.Gen.C20
namespace Mitum.Driver
open Mitum Mitum.Reopen

/-- `reopen <read> <bodyLen>`: does the read answer the same after closing and opening? -/
def stepC20 (ts : List String) : String :=
  match ts with
  | ["reopen", rd, n] =>
    match n.toNat? with
    | some n =>
      let f : Frame := { enchint := "json", hdr := [1], body := List.replicate n 7 }
      let keeps := if rd = "LastSuffrageProofBytes" then Gen.C20.proofLoaderKeepsBody
                   else if rd = "LastBlockMapBytes" then Gen.C20.blockMapLoaderKeepsBody else true
      if readBytes (load keeps (persist f).2) = readBytes (persist f).1 ∧ readObject (load keeps (persist f).2) = readObject (persist f).1
      then "same" else "differs"
    | none => "bad-op"
  | _ => "bad-op"
end Mitum.Driver
