import MitumModel.Common
import MitumModel.Model.Signed
import MitumModel.Gen.C28
namespace Mitum.Driver
open Mitum Mitum.Signed

/-- `det <kind> <field>`: does validation catch a same-width change of that field?
`relabel <kind>` / `shift <kind>`: the two changes the hash cannot see. -/
def stepC28 (ts : List String) : String :=
  match ts with
  | ["det", kind, field] =>
    -- the order of a hashed list: the elements are concatenated in their order, so a rotation is a change of the field
    if field == "signs[order]" then boolStr Gen.C28.operationHashReadsSignsInOrder
    else if field.endsWith "[order]" then boolStr (detects Gen.C28.kinds kind (field.dropRight 7))
    else if field == "signer" || field == "signature" || field == "signedAt" || field == "signNode" || field == "hash" || field == "opHash" || field == "stage" then "1"
    else boolStr (detects Gen.C28.kinds kind field)
  | ["relabel", _] => boolStr Gen.C28.ballotFactHashCoversKind
  | ["shift", _] => "0"
  | ["netid", _] => boolStr (Gen.C28.signCoversNetworkHashTime)
  | _ => "bad-op"

end Mitum.Driver
