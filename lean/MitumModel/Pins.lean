/- Hand-maintained: the source hashes of the functions each model transcribes, as of the
   tree the models were written against.  Updated only by tools/update_pins.py. -/
namespace Mitum.Pins

def C01 : List (String × String) := [("FindMajority", "bd2c5591807280b5"),
  ("FindVoteResult", "a42d39a8f43e0fba")]

def C02 : List (String × String) := []

def C06 : List (String × String) := [("NewLastPoint", "0c337d57447e9477"),
  ("NewLastPointFromVoteproof", "97e5a1218226a5da"),
  ("LastPoint.Before", "006bb204e974ff8c"),
  ("LastPoint.beforeSamePoint", "6ee13861f78c1654"),
  ("LastPoint.beforeNotSamePoint", "7fa4ce3143537aad"),
  ("IsNewVoteproofbyPoint", "54efa368b2d206d5"),
  ("IsNewVoteproof", "59109bb1646bc025"),
  ("IsNewBallot", "549d91f03ea6b6b2"),
  ("LastVoteproofs.Cap", "402e82e39b88c535"),
  ("findLastVoteproofs", "b63749e737f15693"),
  ("LastVoteproofsHandler.IsNew", "3fc94e169d1b7ead"),
  ("LastVoteproofsHandler.Set", "95a2897e41f9f468"),
  ("LastVoteproofsHandler.fillMissing", "f5b41cf1dfebd0ab"),
  ("Ballotbox.SetLastPoint", "f919af8b56361cc2"),
  ("Ballotbox.SetLastPointFromVoteproof", "c5ccdcf6fecf82f5"),
  ("Point.Compare", "15b9634a080d538f"),
  ("StagePoint.Compare", "7690191db0776fe7"),
  ("StagePoint.IsZero", "c13e7fb796179cc9"),
  ("Height.IsZero", "bc197f9008f9d5cf"),
  ("Stage.Compare", "9ef838770e6a1f4f")]

def C07 : List (String × String) := [("BaseProposalSelector.getNodes", "434f9eb6c3c13e51"),
  ("BaseProposalSelector.selectInternal", "3904ab844a8fc8e7"),
  ("BaseProposalSelector.selectFromProposer", "0d30a369ef3a11ec"),
  ("BlockBasedProposerSelector.Select", "52eecbad2e40d1ff")]

def C22 : List (String × String) := [("TempPool.OperationHashes", "4a6439834d695878"),
  ("TempPool.SetOperation", "c6332c9beed9b868"),
  ("TempPool.setRemoveNewOperations", "c11623aa3d6a432c"),
  ("TempPool.removeNewOperationOrdereds", "7a4d3c4a0b0e082a"),
  ("newNewOperationLeveldbKeys", "6f3496b9a5b52699"),
  ("leveldbNewOperationOrderedKey", "9cd44d0080ec9bfd"),
  ("leveldbNewOperationKeysKey", "67b7fa82cfa3682d"),
  ("leveldbNewOperationKey", "279e16b72adab0e3")]

def C23 : List (String × String) := [("TempPool.SuffrageExpelOperation", "f266bb9c6770f166"),
  ("TempPool.SetSuffrageExpelOperation", "f099979763cf5453"),
  ("TempPool.TraverseSuffrageExpelOperations", "1cfbeda07acde56a"),
  ("TempPool.RemoveSuffrageExpelOperationsByFact", "72a64edcc68929bd"),
  ("TempPool.RemoveSuffrageExpelOperationsByHeight", "2b37af6f10be2ba2"),
  ("newSuffrageExpelOperationKey", "df0d99744e9813ff"),
  ("leveldbSuffrageExpelOperation", "6c8fbfd73bc7b251"),
  ("Storage.Iter", "24370b112fc79300")]

def C24 : List (String × String) := [("TempPool.SetBallot", "94e63e2b19ba4c15"),
  ("TempPool.Ballot", "3f45bc5e2dfbef46"),
  ("TempPool.SetProposal", "3386c2c06f67748b"),
  ("TempPool.Proposal", "18237b28b8929187"),
  ("TempPool.ProposalByPoint", "c9d29ac3d87e6710"),
  ("TempPool.cleanByHeight", "399c762ee04a787e"),
  ("TempPool.cleanProposals", "a345a6eb8247d08e"),
  ("TempPool.cleanBallots", "0ade15e535ed399f"),
  ("leveldbBallotKey", "8354087d658ab77d"),
  ("leveldbProposalPointKey", "2facaab6322eab6c"),
  ("leveldbProposalKey", "afb13582b8a2d487"),
  ("heightFromKey", "69be931e5c265b69")]

def C25 : List (String × String) := [("NewPrefixKey", "54368f7169899520"),
  ("NewPrefixStorage", "adde037c0711776f"),
  ("PrefixStorage.Close", "11e988a465eb1313"),
  ("PrefixStorage.Remove", "508cab8a41670975"),
  ("PrefixStorage.Get", "a608fcdee93ec80a"),
  ("PrefixStorage.Exists", "b84415127cded978"),
  ("PrefixStorage.Iter", "8cd16b2d8d8e8684"),
  ("PrefixStorage.Put", "3bc16eb4d0f8bf56"),
  ("PrefixStorage.Delete", "4b4ec200c5e089fd"),
  ("PrefixStorage.NewBatch", "efb3dee3e27ec44e"),
  ("PrefixStorage.Batch", "3723e07c4a69ec7c"),
  ("PrefixStorage.key", "ed4d7488d675001b"),
  ("PrefixStorage.origkey", "87b930932266464a"),
  ("PrefixStorageBatch.Put", "7f6eaddb570e3c3d"),
  ("PrefixStorageBatch.Delete", "37dd78decd2b9af2"),
  ("RemoveByPrefix", "1adb6e4e0c893387"),
  ("Storage.Get", "1da59af6c648991e"),
  ("Storage.Exists", "69935f571d537cf0"),
  ("Storage.Iter", "24370b112fc79300"),
  ("Storage.Put", "dd600321ccc75211"),
  ("Storage.Delete", "745ca026c7f80b71"),
  ("Storage.Batch", "159c21f7d176df42"),
  ("BatchRemove", "a60b67f8f40a2d79")]

def C29 : List (String × String) := [("EnsureRead", "a37a8396188f899f"),
  ("WriteLengthed", "02f939df4a74b2e6"),
  ("ReadLengthedBytes", "51db0448790bfa52"),
  ("ReadLengthBytes", "11a4d63cfc3e28c8"),
  ("ReadLength", "266c06fe87fa7bb2"),
  ("ReadLengthed", "975e8e53ea46f032"),
  ("WriteLengthedSlice", "59eb56db0b853aac"),
  ("ReadLengthedBytesSlice", "3d96347727d30e3f"),
  ("ReadLengthedSlice", "8fc916514c061b4e"),
  ("NewLengthedBytesSlice", "379561ce1d8150c3"),
  ("BytesFrameWriter.Header", "e7c46cf3c894610b"),
  ("BytesFrameReader.Header", "b929edb396a275ae"),
  ("Uint64ToBytes", "0a0a60607eaf1114"),
  ("uint64ToBytes", "6aa44f15db6b0b9d"),
  ("BytesToUint64", "b6e4d7a07951de01")]

def C31 : List (String × String) := [("NewHint", "93f38caf0dad8228"),
  ("EnsureParseHint", "93c36666335587ca"),
  ("ParseHint", "1abad31f290f825c"),
  ("parseHint", "d69c4cbe00054f91"),
  ("Hint.IsValid", "b60e96f95b617186"),
  ("hintString", "e5b3465bb367ef3d"),
  ("Hint.Equal", "c6ee7721e424a49c"),
  ("Hint.IsCompatible", "5b6deb226dce7734"),
  ("Type.IsValid", "b72f515dff59849e"),
  ("NewCompatibleSet", "b83b5f8285166a82"),
  ("CompatibleSet.add", "0da979c4399f9f15"),
  ("CompatibleSet.addWithHint", "6d6eba050b0a5abd"),
  ("CompatibleSet.Find", "e8fd3b6e0f60a4f5"),
  ("CompatibleSet.FindByString", "848a03f550ca7285"),
  ("CompatibleSet.FindBytType", "00b089cde1d5c168"),
  ("CompatibleSet.FindBytTypeString", "0f30e537902bc4fe"),
  ("CompatibleSet.find", "ff88d6bba9b3bedd"),
  ("CompatibleSet.findBytType", "6fffec1c2e5e00c8"),
  ("CompatibleSet.cacheGet", "a3aa148dd6fbcc43"),
  ("CompatibleSet.cacheSet", "6ded8c54f5639763"),
  ("EnsureParseVersion", "6e60e5d71c6c7ae9"),
  ("ParseVersion", "91ad47cfd970b449"),
  ("newVersion", "caba68d037b0faaa"),
  ("Version.IsValid", "6a6f977bbb04bc6b"),
  ("Version.Compare", "abc782e8e0030b26"),
  ("Version.IsCompatible", "3120746b5d45ce95")]

def C35 : List (String × String) := []

def C37 : List (String × String) := [("newMembersPool", "4ece4fcbe2dcdb24"),
  ("membersPool.Empty", "431883986d0c8beb"),
  ("membersPool.Exists", "2b0fc19bd90c3ca6"),
  ("membersPool.Get", "21092d8a7915c72d"),
  ("membersPool.MembersLenOthers", "56da35179465b158"),
  ("membersPool.MembersLen", "967dc9d3211c8243"),
  ("membersPool.Set", "d110a76f0dcccfc3"),
  ("membersPool.Remove", "1d7e70984aecf7db"),
  ("membersPool.removeFromNode", "2bb2db03ac1a30de"),
  ("membersPool.Len", "d64d859a44033f44"),
  ("membersPool.Traverse", "b706778b0ae5116c"),
  ("memberid", "a66521abd808008b")]

def C38 : List (String × String) := [("ProposalMaker.PreferEmpty", "557bd293dd5b599b"),
  ("ProposalMaker.preferEmpty", "8e490e5d12ad5ee1"),
  ("ProposalMaker.Make", "e34ede2b909caf8a"),
  ("ProposalMaker.makeNew", "b0c64b7df2ee1d86"),
  ("ProposalMaker.makeProposal", "dc19eed902c53b8e"),
  ("NewProposalFact", "858dfac40cd03508"),
  ("NewProposalSignFact", "822fe03854c43c42")]

end Mitum.Pins
