#!/usr/bin/env python3
"""Regenerate MANIFEST.json from registry.json (+ properties.jsonl for ids)."""
import json, os
ROOT = os.path.dirname(os.path.dirname(os.path.abspath(__file__)))
reg = json.load(open(os.path.join(ROOT, "registry.json")))
props = [json.loads(l) for l in open(os.path.join(ROOT, "properties.jsonl"))]
hooks = json.load(open(os.path.join(ROOT, "hooks.json")))
na = json.load(open(os.path.join(ROOT, "not_applicable.json")))
checks = []
for p in props:
    pid = p["id"]
    if pid not in reg or not reg[pid].get("claimed", True):
        continue
    r = reg[pid]
    checks.append({
        "property_id": pid,
        "quick_cmd": f"./check {pid} --tier quick",
        "thorough_cmd": f"./check {pid} --tier thorough",
        "evidence_file": f"/verif/evidence/{pid}.json",
        "replay_cmd_template": f"./check {pid} --replay {{path}}",
        "engine": "lean4+go-harness",
        "level_claimed": {"category": "proof", "text": r["level_text"], "design_ref": f"DESIGN.md section 5, {pid}"},
        "level_note": r.get("level_note", "Trusted: Lean 4.33 kernel (axioms propext, Classical.choice, Quot.sound only; audited per run), the go/ast fact extractor, the Go correspondence harness and its generators, Go runtime and library contracts (DESIGN.md section 4). The proofs are about a hand-written Lean model tied to /repo by regenerated facts and differential runs."),
        "technique": r.get("technique", "Lean 4 theorems about an executable model + regenerated facts + model/implementation correspondence"),
    })
claimed = {c["property_id"] for c in checks}
nal = [x for x in na if x["property_id"] not in claimed]
for p in props:
    if p["id"] not in claimed and p["id"] not in {x["property_id"] for x in nal}:
        nal.append({"property_id": p["id"], "reason": "not yet claimed: the model/theorems/tie for this property are not built yet in this tree (see DESIGN.md section 5 for the planned design)"})
m = {
    "version": 1,
    "setup_cmd": "./setup.sh",
    "hooks": hooks,
    "engines": [{"name": "lean4+go-harness", "path": "/verif/check", "serves_properties": sorted(claimed),
                 "kind_free_text": "Lean 4 machine-checked theorems over executable models (lean/), tied to /repo on every run by a go/ast fact extractor (extract/) that regenerates lean/MitumModel/Gen/*.lean and by a Go correspondence harness (harness/) that runs the real code and the compiled Lean driver on the same cases"}],
    "checks": checks,
    "not_applicable": nal,
    "notes": "See DESIGN.md. known-findings.json lists recorded findings (class-based) and fixed: entries.",
}
json.dump(m, open(os.path.join(ROOT, "MANIFEST.json"), "w"), indent=1)
print("claimed", len(checks), "not_applicable", len(nal))
