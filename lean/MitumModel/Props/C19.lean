import MitumModel.Model.Center
import MitumModel.Gen.C19
import MitumModel.Pins
/-!
C19  Database reads agree with the committed chain.
-/
namespace Mitum.C19
open Mitum.Center

def fixed : Fixes := { proofExact := true, byBlockBelowTemps := true, lastProofHeight := true }

/-- `findSome?` does not depend on the order or grouping of the list when all hits agree -/
theorem findSome_congr {α β : Type} (f : α → Option β) (l₁ l₂ : List α)
    (hmem : ∀ a, a ∈ l₁ ↔ a ∈ l₂)
    (huniq : ∀ a b x y, a ∈ l₁ → b ∈ l₁ → f a = some x → f b = some y → x = y) :
    l₁.findSome? f = l₂.findSome? f := by
  cases h1 : l₁.findSome? f with
  | none =>
    have hn := List.findSome?_eq_none_iff.mp h1
    symm
    apply List.findSome?_eq_none_iff.mpr
    intro a ha
    exact hn a ((hmem a).mpr ha)
  | some x =>
    obtain ⟨a, ha, hfa⟩ := List.exists_of_findSome?_eq_some h1
    cases h2 : l₂.findSome? f with
    | none =>
      have hn := List.findSome?_eq_none_iff.mp h2
      have := hn a ((hmem a).mp ha)
      rw [hfa] at this; cases this
    | some y =>
      obtain ⟨b, hb, hfb⟩ := List.exists_of_findSome?_eq_some h2
      rw [huniq a b x y ha ((hmem b).mpr hb) hfa hfb]

/-- a chain in which a suffrage height is proved by at most one proof -/
def ProofsUnique (c : Chain) : Prop :=
  ∀ b₁ b₂ s id₁ id₂, b₁ ∈ c → b₂ ∈ c → b₁.suf = some (s, id₁) → b₂.suf = some (s, id₂) → id₁ = id₂

theorem pick_some (sh : Nat) (b : Block) (x : String) (h : pickProof true sh b = some x) : b.suf = some (sh, x) := by
  unfold pickProof at h
  cases hs : b.suf with
  | none => simp [hs] at h
  | some p =>
    obtain ⟨s, id⟩ := p
    simp only [hs, if_true] at h
    by_cases he : s = sh
    · simp [he] at h; rw [he, h]
    · simp [he] at h

/-- **proof_refines** (repaired code).  Wherever the chain is cut between the permanent store and
the temps, `Center.SuffrageProof(h)` is the proof of exactly suffrage height `h` of the committed
chain, or nothing. -/
theorem proof_refines (c : Chain) (p : Nat) (sh : Nat) (hu : ProofsUnique c) :
    ctrProof fixed (ofChain c p) sh = specProof c sh := by
  have hsplit : c = c.take p ++ c.drop p := (List.take_append_drop p c).symm
  have huniq : ∀ a b x y, a ∈ c → b ∈ c → pickProof true sh a = some x → pickProof true sh b = some y → x = y := by
    intro a b x y ha hb hx hy
    exact hu a b sh x y ha hb (pick_some sh a x hx) (pick_some sh b y hy)
  -- the whole chain, read temps-first
  have hre : c.findSome? (pickProof true sh) = ((c.drop p).reverse ++ c.take p).findSome? (pickProof true sh) := by
    apply findSome_congr
    · intro a
      constructor
      · intro ha
        rw [hsplit] at ha
        simp only [List.mem_append, List.mem_reverse] at ha ⊢
        exact ha.symm
      · intro ha
        simp only [List.mem_append, List.mem_reverse] at ha
        rw [hsplit]; simp only [List.mem_append]; exact ha.symm
    · exact huniq
  simp only [ctrProof, specProof, ofChain, fixed]
  rw [hre, List.findSome?_append]
  cases ((c.drop p).reverse).findSome? (pickProof true sh) with
  | none => simp
  | some x => simp

theorem newest_is_last (c : Chain) (p : Nat) : newestHeight (ofChain c p) = lastHeight c := by
  have hsplit : c = c.take p ++ c.drop p := (List.take_append_drop p c).symm
  simp only [newestHeight, ofChain]
  cases hd : (c.drop p).reverse with
  | nil =>
    have : c.drop p = [] := by simpa using hd
    simp only
    rw [show c.take p = c from by conv => rhs; rw [hsplit, this, List.append_nil]]
  | cons b r =>
    simp only [lastHeight]
    have hl : (c.drop p).getLast? = some b := by
      have := congrArg List.head? hd
      simpa [List.head?_reverse] using this
    conv => rhs; rw [hsplit]
    rw [List.getLast?_append]
    simp [hl]

/-- the height reported with the last proof (repaired code) is the newest block's -/
theorem last_proof_height_refines (c : Chain) (p : Nat) :
    ctrLastProofHeight fixed (ofChain c p) = specLastProofHeight c := by
  have hsplit : c = c.take p ++ c.drop p := (List.take_append_drop p c).symm
  have hany : (specLastProof c).isSome =
      (((ofChain c p).temps.find? (fun b => b.suf.isSome)).isSome || (specLastProof (ofChain c p).perm).isSome) := by
    simp only [specLastProof, ofChain]
    conv => lhs; rw [hsplit]
    rw [List.reverse_append, List.findSome?_append]
    cases h1 : (c.drop p).reverse.findSome? (fun b => b.suf.map (·.2)) with
    | some x =>
      have : ((c.drop p).reverse.find? (fun b => b.suf.isSome)).isSome = true := by
        obtain ⟨a, ha, hfa⟩ := List.exists_of_findSome?_eq_some h1
        rw [List.find?_isSome]
        exact ⟨a, ha, by cases hs : a.suf <;> simp_all⟩
      simp [this]
    | none =>
      have hn := List.findSome?_eq_none_iff.mp h1
      have : ((c.drop p).reverse.find? (fun b => b.suf.isSome)) = none := by
        apply List.find?_eq_none.mpr
        intro a ha
        have := hn a ha
        cases hs : a.suf <;> simp_all
      simp [this]
  simp only [ctrLastProofHeight, specLastProofHeight, fixed, if_true, newest_is_last]
  rw [hany]
  cases hf : (ofChain c p).temps.find? (fun b => b.suf.isSome) with
  | some b => simp
  | none => simp

/-! ### the code before the repairs (each witness replayed on the real Center by the harness) -/

def wChain : Chain :=
  [{ height := 0, mapID := "m0", states := [], suf := some (0, "p0"), policy := none, known := [], inState := [] },
   { height := 1, mapID := "m1", states := [], suf := none, policy := none, known := [], inState := [] },
   { height := 2, mapID := "m2", states := [], suf := some (1, "p1"), policy := none, known := [], inState := [] },
   { height := 3, mapID := "m3", states := [], suf := none, policy := none, known := [], inState := [] }]

def old : Fixes := { proofExact := false, byBlockBelowTemps := false, lastProofHeight := false }

/-- asked for a suffrage height that does not exist (2, or 7), the old code answers with the proof of height 1 -/
theorem proof_of_other_height_witness :
    ctrProof old (ofChain wChain 0) 2 = some "p1" ∧ ctrProof old (ofChain wChain 0) 7 = some "p1" ∧ specProof wChain 2 = none := by
  decide

/-- blocks 0..2 merged, 3 in the temps: asked for block height 1 the old code answers with the proof of block 2 -/
theorem by_block_below_temps_witness :
    ctrProofByBlock old (ofChain wChain 3) 1 = some "p1" ∧ specProofByBlock wChain 1 = some "p0" ∧
    ctrProofByBlock fixed (ofChain wChain 3) 1 = some "p0" := by
  decide

/-- the last proof sits in block 2, the newest block is 3: the old code reports 2 -/
theorem last_proof_height_witness :
    ctrLastProofHeight old (ofChain wChain 0) = some 2 ∧ specLastProofHeight wChain = some 3 := by
  decide

theorem facts_ok :
    Gen.C19.proofExact = true ∧ Gen.C19.byBlockBelowTemps = true ∧ Gen.C19.lastProofHeight = true ∧
    Gen.C19.extractErrors = [] := by decide

theorem source_pinned : Gen.C19.pins = Pins.C19 := by decide

/-! ### `SuffrageProofByBlockHeight` for every chain of consecutive heights and every cut -/

/-- the committed chain holds the blocks of heights 0, 1, 2, … -/
def Linked (c : Chain) : Prop := ∀ i (h : i < c.length), (c[i]'h).height = i

theorem linked_mem_lt (c : Chain) (hl : Linked c) (b : Block) (hb : b ∈ c) : b.height < c.length := by
  obtain ⟨i, hi, rfl⟩ := List.getElem_of_mem hb
  rw [hl i hi]; exact hi

theorem take_heights (c : Chain) (hl : Linked c) (p : Nat) (b : Block) (hb : b ∈ c.take p) : b.height < p := by
  obtain ⟨i, hi, rfl⟩ := List.getElem_of_mem hb
  have hi' : i < p ∧ i < c.length := by
    have := hi; simp only [List.length_take] at this; omega
  rw [List.getElem_take]
  rw [hl i hi'.2]; exact hi'.1

theorem drop_heights (c : Chain) (hl : Linked c) (p : Nat) (b : Block) (hb : b ∈ c.drop p) : p ≤ b.height := by
  obtain ⟨i, hi, rfl⟩ := List.getElem_of_mem hb
  have hi' : p + i < c.length := by simp [List.length_drop] at hi; omega
  rw [List.getElem_drop]
  rw [hl (p + i) hi']; omega

theorem lastHeight_linked (c : Chain) (hl : Linked c) (hne : c ≠ []) : lastHeight c = some (c.length - 1) := by
  simp only [lastHeight]
  rw [List.getLast?_eq_getElem?]
  have : c.length - 1 < c.length := by
    have := List.length_pos_iff.mpr hne; omega
  simp [List.getElem?_eq_getElem this, hl (c.length - 1) this]


theorem linked_take (c : Chain) (hl : Linked c) (p : Nat) : Linked (c.take p) := by
  intro i hi
  have hi' : i < p ∧ i < c.length := by
    have := hi; simp only [List.length_take] at this; omega
  rw [List.getElem_take]
  exact hl i hi'.2

/-- **proof_by_block_refines** (repaired code).  For a chain of consecutive heights, wherever it is cut
between the permanent store and the temps, `Center.SuffrageProofByBlockHeight(h)` is the newest proof at
or below `h` of the committed chain, and nothing above the last height. -/
theorem proof_by_block_refines (c : Chain) (hl : Linked c) (p h : Nat) :
    ctrProofByBlock fixed (ofChain c p) h = specProofByBlock c h := by
  by_cases hT : c.drop p = []
  · -- nothing in temps: the permanent store holds the whole chain
    have hp : c.length ≤ p := List.drop_eq_nil_iff.mp hT
    simp [ctrProofByBlock, ofChain, hT, List.take_of_length_le hp]
  · have hplt : p < c.length := by
      apply Nat.lt_of_not_ge
      intro hh
      exact hT (List.drop_eq_nil_iff.mpr hh)
    have hne : c ≠ [] := by intro e; simp [e] at hplt
    have hsplit : c = c.take p ++ c.drop p := (List.take_append_drop p c).symm
    -- the newest temp is the chain's last block
    have hlastT : (c.drop p).getLast? = c.getLast? := by
      rw [List.getLast?_drop]
      have : ¬ c.length ≤ p := by omega
      simp [this]
    obtain ⟨newest, hnew⟩ : ∃ b, c.getLast? = some b := by
      cases hc : c.getLast? with
      | none => exact absurd (List.getLast?_eq_none_iff.mp hc) hne
      | some b => exact ⟨b, rfl⟩
    have hnh : newest.height = c.length - 1 := by
      have := lastHeight_linked c hl hne
      simp only [lastHeight, hnew, Option.map_some, Option.some.injEq] at this
      exact this
    obtain ⟨rest, hte⟩ : ∃ rest, (c.drop p).reverse = newest :: rest := by
      have h1 : ((c.drop p).reverse).head? = some newest := by
        rw [List.head?_reverse, hlastT, hnew]
      cases hr : (c.drop p).reverse with
      | nil => simp [hr] at h1
      | cons a r => simp [hr] at h1; exact ⟨r, by rw [h1]⟩
    have hlow : (newest :: rest).getLast? = some (c[p]'hplt) := by
      rw [← hte, List.getLast?_reverse, List.head?_drop]; simp [hplt]
    have hlowh : (c[p]'hplt).height = p := hl p hplt
    have hctr : ofChain c p = { perm := c.take p, temps := newest :: rest } := by simp [ofChain, hte]
    rw [hctr]
    simp only [ctrProofByBlock, fixed, hlow, Option.map_some, Option.getD_some, hlowh, specProofByBlock,
      lastHeight_linked c hl hne, hnh, if_true]
    rw [← hte]
    by_cases hgt : c.length - 1 < h
    · simp [hgt]
    · simp only [hgt, if_false]
      -- the specification read, split at the cut
      have hspec : (c.filter (fun b => b.height ≤ h)).reverse.findSome? (fun b => b.suf.map (·.2)) =
          (match ((c.drop p).filter (fun b => b.height ≤ h)).reverse.findSome? (fun b => b.suf.map (·.2)) with
           | some id => some id
           | none => ((c.take p).filter (fun b => b.height ≤ h)).reverse.findSome? (fun b => b.suf.map (·.2))) := by
        conv => lhs; rw [hsplit]
        rw [List.filter_append, List.reverse_append, List.findSome?_append]
        cases ((c.drop p).filter (fun b => b.height ≤ h)).reverse.findSome? (fun b => b.suf.map (·.2)) <;> simp
      rw [hspec]
      have hfr : ((c.drop p).reverse.filter (fun b => b.height ≤ h)) = ((c.drop p).filter (fun b => b.height ≤ h)).reverse := by
        rw [List.filter_reverse]
      rw [hfr]
      by_cases hph : p ≤ h
      · simp only [hph, if_true]
        cases hin : ((c.drop p).filter (fun b => b.height ≤ h)).reverse.findSome? (fun b => b.suf.map (·.2)) with
        | some id => simp
        | none =>
          simp only []
          by_cases hp0 : p = 0
          · simp [hp0]
          · simp only [hp0, if_false]
            have hPlen : (c.take p).length = p := by rw [List.length_take]; omega
            have hPne : c.take p ≠ [] := by
              intro e
              rw [e] at hPlen
              simp only [List.length_nil] at hPlen
              omega
            simp only [lastHeight_linked (c.take p) (linked_take c hl p) hPne, hPlen]
            have : ¬ (p - 1 < min h (p - 1)) := by omega
            simp only [this, if_false]
            congr 2
            apply List.filter_congr
            intro b hb
            have := take_heights c hl p b hb
            simp only [decide_eq_decide]
            omega
      · -- the asked height is below every temp
        simp only [hph, if_false]
        have hempty : (c.drop p).filter (fun b => b.height ≤ h) = [] := by
          apply List.filter_eq_nil_iff.mpr
          intro b hb
          have := drop_heights c hl p b hb
          simp only [decide_eq_true_eq]; omega
        simp only [hempty, List.reverse_nil, List.findSome?_nil]
        by_cases hp0 : p = 0
        · omega
        · simp only [hp0, if_false]
          have hPlen : (c.take p).length = p := by rw [List.length_take]; omega
          have hPne : c.take p ≠ [] := by
            intro e
            rw [e] at hPlen
            simp only [List.length_nil] at hPlen
            omega
          simp only [lastHeight_linked (c.take p) (linked_take c hl p) hPne, hPlen]
          have : ¬ (p - 1 < min h (p - 1)) := by omega
          simp only [this, if_false]
          congr 2
          apply List.filter_congr
          intro b hb
          have := take_heights c hl p b hb
          simp only [decide_eq_decide]
          omega

/-! ### the other reads -/

theorem chain_reverse_split (c : Chain) (p : Nat) : c.reverse = (c.drop p).reverse ++ (c.take p).reverse := by
  conv => lhs; rw [← List.take_append_drop p c]
  rw [List.reverse_append]

theorem state_refines (c : Chain) (p : Nat) (k : String) : ctrState (ofChain c p) k = specState c k := by
  simp only [ctrState, ofChain, specState]
  rw [chain_reverse_split c p, List.findSome?_append]
  rfl

theorem last_proof_refines (c : Chain) (p : Nat) : ctrLastProof (ofChain c p) = specLastProof c := by
  simp only [ctrLastProof, ofChain, specLastProof]
  rw [chain_reverse_split c p, List.findSome?_append]

theorem policy_refines (c : Chain) (p : Nat) : ctrPolicy (ofChain c p) = specPolicy c := by
  simp only [ctrPolicy, ofChain, specPolicy]
  rw [chain_reverse_split c p, List.findSome?_append]

theorem any_split (q : Block → Bool) (c : Chain) (p : Nat) : ((c.drop p).reverse.any q || (c.take p).any q) = c.any q := by
  conv => rhs; rw [← List.take_append_drop p c]
  rw [List.any_append, List.any_reverse, Bool.or_comm]

theorem in_state_refines (c : Chain) (p : Nat) (op : String) : ctrInState (ofChain c p) op = specInState c op := by
  simp only [ctrInState, ofChain, specInState]; exact any_split _ c p

theorem known_refines (c : Chain) (p : Nat) (op : String) : ctrKnown (ofChain c p) op = specKnown c op := by
  simp only [ctrKnown, ofChain, specKnown]; exact any_split _ c p

theorem find_map_eq_findSome {β : Type} (q : Block → Bool) (g : Block → β) (l : List Block) :
    (l.find? q).map g = l.findSome? (fun b => if q b then some (g b) else none) := by
  induction l with
  | nil => rfl
  | cons a r ih =>
    simp only [List.find?_cons, List.findSome?_cons]
    cases hq : q a <;> simp [ih]

theorem linked_height_inj (c : Chain) (hl : Linked c) (a b : Block) (ha : a ∈ c) (hb : b ∈ c)
    (h : a.height = b.height) : a = b := by
  obtain ⟨i, hi, rfl⟩ := List.getElem_of_mem ha
  obtain ⟨j, hj, rfl⟩ := List.getElem_of_mem hb
  rw [hl i hi, hl j hj] at h
  subst h; rfl

/-- **block_map_refines.**  For a chain of consecutive heights, `Center.BlockMap(h)` (temps first, then the
permanent store) is the block map of height `h` of the committed chain. -/
theorem block_map_refines (c : Chain) (hl : Linked c) (p h : Nat) :
    ctrBlockMap (ofChain c p) h = specBlockMap c h := by
  simp only [ctrBlockMap, ofChain, specBlockMap]
  rw [find_map_eq_findSome, find_map_eq_findSome, find_map_eq_findSome]
  rw [← List.findSome?_append]
  symm
  apply findSome_congr
  · intro a
    constructor
    · intro ha
      rw [← List.take_append_drop p c] at ha
      simp only [List.mem_append, List.mem_reverse] at ha ⊢
      exact ha.symm
    · intro ha
      simp only [List.mem_append, List.mem_reverse] at ha
      rw [← List.take_append_drop p c]; simp only [List.mem_append]; exact ha.symm
  · intro a b x y ha hb hx hy
    by_cases h1 : a.height = h
    · by_cases h2 : b.height = h
      · have := linked_height_inj c hl a b ha hb (h1.trans h2.symm)
        subst this
        simp [h1] at hx hy
        exact hx.symm.trans hy
      · simp [h2] at hy
    · simp [h1] at hx

theorem last_block_map_refines (c : Chain) (p : Nat) : ctrLastBlockMap (ofChain c p) = specLastBlockMap c := by
  simp only [ctrLastBlockMap, ofChain, specLastBlockMap]
  cases hr : (c.drop p).reverse with
  | nil =>
    have hd : c.drop p = [] := by simpa using hr
    have hp : c.length ≤ p := List.drop_eq_nil_iff.mp hd
    simp [List.take_of_length_le hp]
  | cons b r =>
    have h1 : ((c.drop p).reverse).head? = some b := by rw [hr]; rfl
    rw [List.head?_reverse, List.getLast?_drop] at h1
    have hp : ¬ c.length ≤ p := by
      intro hh
      have : c.drop p = [] := List.drop_eq_nil_iff.mpr hh
      simp [this] at hr
    simp only [hp, if_false] at h1
    simp [h1]

end Mitum.C19
