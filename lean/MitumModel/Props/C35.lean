import MitumModel.Model.ACL
import MitumModel.Gen.C35
/-!
C35  Access control decisions follow the documented precedence.
-/
namespace Mitum.C35
open Mitum.ACL

/-- configuration instantiated from the regenerated facts of launch/acl.go -/
def genCfg : Cfg :=
  { prohibit := Gen.C35.prohibit, super := Gen.C35.super,
    defaultScope := Gen.C35.defaultScope, defaultUser := Gen.C35.defaultUser }

/-- every stored permission is at least `prohibit` (what `convertACLPerm`/`IsValid` admit) -/
def WellFormed (c : Cfg) (tbl : Table) : Prop :=
  ∀ u perms, (u, perms) ∈ tbl → ∀ s p, (s, p) ∈ perms → c.prohibit ≤ p

theorem lookup_mem {α : Type} (k : String) (l : List (String × α)) (v : α)
    (h : lookup k l = some v) : (k, v) ∈ l := by
  induction l with
  | nil => simp [lookup] at h
  | cons kv rest ih =>
    obtain ⟨k', v'⟩ := kv
    unfold lookup at h
    by_cases hk : k' = k
    · simp [hk] at h; subst hk; subst h; simp
    · simp [hk] at h; exact List.mem_cons_of_mem _ (ih h)

/-- the permission of one table row that decides (scope perm, else the row's `_default`) -/
def own (c : Cfg) (tbl : Table) (u scope : String) : Option Nat :=
  match lookup u tbl with
  | none => none
  | some perms =>
    match lookup scope perms with
    | some p => some p
    | none => lookup c.defaultScope perms

theorem effective_eq (c : Cfg) (tbl : Table) (user scope : String) :
    effective c tbl user scope =
      match own c tbl user scope with
      | some p => some p
      | none => own c tbl c.defaultUser scope := rfl

theorem allowUser_eq (c : Cfg) (tbl : Table) (u scope : String) (required : Nat) :
    allowUser c tbl u scope required =
      match own c tbl u scope with
      | some p => (p, decide (required ≤ p))
      | none => (0, false) := by
  unfold allowUser own fromDefault
  cases lookup u tbl with
  | none => rfl
  | some perms =>
    simp only
    cases lookup scope perms with
    | none => cases lookup c.defaultScope perms <;> rfl
    | some p => rfl

theorem own_ge (c : Cfg) (tbl : Table) (hw : WellFormed c tbl) (u scope : String) (p : Nat)
    (h : own c tbl u scope = some p) : c.prohibit ≤ p := by
  unfold own at h
  cases hl : lookup u tbl with
  | none => simp [hl] at h
  | some perms =>
    simp only [hl] at h
    have hm := lookup_mem u tbl perms hl
    cases hs : lookup scope perms with
    | none =>
      simp only [hs] at h
      exact hw u perms hm _ p (lookup_mem _ _ _ h)
    | some q =>
      simp only [hs] at h
      injection h with h
      subst h
      exact hw u perms hm _ q (lookup_mem _ _ _ hs)

/-- ✦ the decision is made by the four-level chain: the user's scope permission, else the
    user's default, else the default user's scope permission, else the default user's
    default; `allow = perm ≥ required`; nothing found ⇒ deny. For arbitrary tables. -/
theorem allow_precedence (c : Cfg) (su : String) (tbl : Table) (user scope : String) (required : Nat)
    (hp : 1 ≤ c.prohibit) (hw : WellFormed c tbl)
    (hr : required ≠ c.prohibit) (hu : user ≠ su) :
    allow c su tbl user scope required =
      match effective c tbl user scope with
      | some p => (p, decide (required ≤ p))
      | none => (0, false) := by
  unfold allow
  simp only [hr, hu, if_false]
  rw [effective_eq, allowUser_eq, allowUser_eq]
  cases ho : own c tbl user scope with
  | none =>
    simp only
    have : ¬ c.prohibit ≤ 0 := by omega
    simp only [this, if_false]
  | some p =>
    simp only
    have := own_ge c tbl hw user scope p ho
    simp only [this, if_true]

/-- ✦ an explicit prohibit always denies (every requirement above `prohibit`), and a
    request *for* `prohibit` is always denied. -/
theorem prohibit_denies (c : Cfg) (su : String) (tbl : Table) (user scope : String) (required : Nat)
    (hp : 1 ≤ c.prohibit) (hw : WellFormed c tbl) (hu : user ≠ su)
    (he : effective c tbl user scope = some c.prohibit) (hr : c.prohibit < required) :
    (allow c su tbl user scope required).2 = false := by
  rw [allow_precedence c su tbl user scope required hp hw (by omega) hu, he]
  simp only [decide_eq_false_iff_not]
  omega

theorem required_prohibit_denies (c : Cfg) (su : String) (tbl : Table) (user scope : String) :
    (allow c su tbl user scope c.prohibit).2 = false := by
  unfold allow; simp

/-- ✦ the superuser is always allowed (for every requirement other than `prohibit`). -/
theorem superuser_allowed (c : Cfg) (su : String) (tbl : Table) (scope : String) (required : Nat)
    (hr : required ≠ c.prohibit) :
    allow c su tbl su scope required = (c.super, true) := by
  unfold allow; simp [hr]

/-- ✦ facts of the current source: the constants and the guard order of `ACL.Allow`. -/
theorem facts_ok :
    Gen.C35.extractErrors = [] ∧
    genCfg = { prohibit := 1, super := 79, defaultScope := "_default", defaultUser := "_default" } ∧
    Gen.C35.allowGuards =
      ["required == aclPermProhibit", "user == acl.superuser", "assigned >= aclPermProhibit"] ∧
    Gen.C35.readAllow = 2 ∧ Gen.C35.writeAllow = 3 := by
  refine ⟨by decide, by decide, by decide, by decide, by decide⟩

theorem genCfg_prohibit_pos : 1 ≤ genCfg.prohibit := by decide

/-- ✦ every valid permission prints to and parses from text unchanged (all 256 uint8 values
    are enumerated; the valid ones are `1 ≤ p ≤ super`). -/
theorem perm_text_roundtrip :
    ∀ p : Fin 256, permValid genCfg p.val = true → permParse genCfg (permString genCfg p.val) = some p.val := by
  decide +kernel

/-- the excluded point of `prohibit_denies`: a (invalid) requirement of 0 is granted even to a
    prohibited user — `required = 0` is rejected by `ACLPerm.IsValid`. -/
example : (allow genCfg "su" [("u", [("s", 1)])] "u" "s" 0) = (1, true) := by decide

-- non-vacuity: a well-formed table on which every level of the chain is exercised
example : WellFormed genCfg [("u", [("s", 2)]), ("_default", [("_default", 1)])] := by
  intro u perms hu s p hs
  simp at hu
  rcases hu with ⟨_, rfl⟩ | ⟨_, rfl⟩ <;> simp at hs <;> rcases hs with ⟨_, rfl⟩ <;> decide
example : allow genCfg "su" [("u", [("s", 2)]), ("_default", [("_default", 1)])] "u" "s" 2 = (2, true) := by decide
example : allow genCfg "su" [("u", [("s", 2)]), ("_default", [("_default", 1)])] "w" "s" 2 = (1, false) := by decide
example : effective genCfg [("u", [("s", 2)]), ("_default", [("_default", 1)])] "w" "t" = some genCfg.prohibit := by decide

end Mitum.C35
