import MitumModel.Common
import MitumModel.Model.Hint
import MitumModel.Gen.C31
namespace Mitum.Driver
open Mitum Mitum.Hint

/-- `M.m.p` or `M.m.p-id1.id2…` -/
def c31Ver (s : String) : Option Ver :=
  let parts := s.splitOn "-"
  match parts with
  | [] => none
  | core :: rest =>
    match (core.splitOn ".").mapM String.toNat? with
    | some [a, b, c] =>
      let pre := if rest.isEmpty then [] else (("-".intercalate rest).splitOn ".").map String.toList
      some { major := a, minor := b, patch := c, pre := pre }
    | _ => none

def c31VerStr (v : Ver) : String :=
  s!"v{v.major}.{v.minor}.{v.patch}" ++ (if v.pre.isEmpty then "" else "-" ++ ".".intercalate (v.pre.map String.ofList))

def stepC31 (ts : List String) : String :=
  let rej := Gen.C31.typeRejectsMarker
  let ce := Gen.C31.addCachesEffective
  match ts with
  | ["ty", t] => boolStr (typeValid rej Gen.C31.minTypeLength Gen.C31.maxTypeLength t.toList)
  | ["pp", t, v] =>
    match parse (print t.toList v.toList) with
    | some (t', v') => String.ofList t' ++ " " ++ String.ofList v'
    | none => "err"
  | "seq" :: ops =>
    let step := fun (acc : CSet × List String) (t : String) =>
      match t.splitOn ":" with
      | ["a", ty, v, val] =>
        match c31Ver v, val.toNat? with
        | some v, some val =>
          let r := add ce acc.1 ⟨ty, v⟩ val
          (r.1, acc.2 ++ [if r.2 then "ok" else "dup"])
        | _, _ => (acc.1, acc.2 ++ ["bad-op"])
      | ["f", ty, v] =>
        match c31Ver v with
        | some v =>
          let r := find acc.1 ⟨ty, v⟩
          (r.1, acc.2 ++ [match r.2 with | .found _ x => toString x | .notFound => "none"])
        | none => (acc.1, acc.2 ++ ["bad-op"])
      | ["t", ty] =>
        let r := findByType acc.1 ty
        (r.1, acc.2 ++ [match r.2 with | .found h x => s!"{c31VerStr h.v}={x}" | .notFound => "none"])
      | ["fs", raw] =>
        -- FindByString: a string with a version marker is parsed and looked up like Find, else an error
        match parse raw.toList with
        | some (ty, vtext) =>
          match c31Ver (String.ofList (vtext.drop 1)) with
          | some v =>
            let r := find acc.1 ⟨String.ofList ty, v⟩
            (r.1, acc.2 ++ [match r.2 with | .found _ x => toString x | .notFound => "none"])
          | none => (acc.1, acc.2 ++ ["none"])
        | none => (acc.1, acc.2 ++ ["err"])
      | ["ts", raw] =>
        -- FindBytTypeString: an invalid type string is an error, else like FindBytType
        if typeValid rej Gen.C31.minTypeLength Gen.C31.maxTypeLength raw.toList then
          let r := findByType acc.1 raw
          (r.1, acc.2 ++ [match r.2 with | .found h x => s!"{c31VerStr h.v}={x}" | .notFound => "none"])
        else (acc.1, acc.2 ++ ["err"])
      | _ => (acc.1, acc.2 ++ ["bad-op"])
    joinSp (ops.foldl step (CSet.empty, [])).2
  | _ => "bad-op"

end Mitum.Driver
