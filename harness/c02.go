package main

import (
	"context"
	"fmt"
	"github.com/spikeekips/mitum/isaac"
	"github.com/spikeekips/mitum/util"

	"github.com/spikeekips/mitum/base"
)

// exact ceiling in integer arithmetic; t10 = threshold in tenths
func requiredExact(n, t10 uint64) uint64 { return (n*t10 + 999) / 1000 }

func init() { register("C02", runC02) }

// C02: the whole stated grid n in 1..100000 x t in 51.0..100.0 is compared
// exhaustively with exact integer arithmetic (thorough) or n <= 3000 full grid
// + multiples of 25 (quick); a sample of the grid goes to the Lean driver to
// tie `Threshold.required` to the same numbers.
func runC02(c *Ctx) error {
	maxFull := uint64(3000)
	if c.Thorough() {
		maxFull = 100000
	}
	mismatch := 0
	check := func(n, t10 uint64) {
		th := base.Threshold(float64(t10) / 10)
		got := uint64(th.Threshold(uint(n)))
		want := requiredExact(n, t10)
		c.Eval(1)
		if got != want {
			mismatch++
			kind := "overcount"
			if got < want {
				kind = "undercount"
			}
			c.Count("mismatch", kind)
			if mismatch <= 20 {
				c.Violation("C02:float-ceil-"+kind,
					fmt.Sprintf("Threshold(%.1f).Threshold(%d)=%d, exact ceil=%d", float64(t10)/10, n, got, want),
					map[string]uint64{"n": n, "t10": t10, "got": got, "want": want})
			}
		}
		// sample for the Lean driver: sparse deterministic subset + random
		if (n*1009+t10*31)%997 == 0 || n <= 12 && t10%70 == 0 {
			c.Case(fmt.Sprintf("%d %d", n, t10), fmt.Sprint(got))
			if want != n && want*1000 != n*t10 {
				c.Nontrivial(fmt.Sprintf("%d/%d", n, t10))
			}
			if c.cases%500 == 1 {
				c.Sample(map[string]uint64{"n": n, "t10": t10, "impl": got, "exact": want})
			}
		}
	}
	for n := uint64(1); n <= maxFull; n++ {
		for t10 := uint64(510); t10 <= 1000; t10++ {
			check(n, t10)
		}
	}
	c.CountN("grid", fmt.Sprintf("full n<=%d", maxFull), int(maxFull*491))
	if !c.Thorough() {
		for n := uint64(3025); n <= 100000; n += 25 {
			for t10 := uint64(510); t10 <= 1000; t10++ {
				check(n, t10)
			}
		}
		c.CountN("grid", "n multiple of 25 up to 100000", int((100000-3025)/25+1)*491)
		// random points of the remaining grid
		for i := 0; i < 200000; i++ {
			check(uint64(3001+c.Intn(97000)), uint64(510+c.Intn(491)))
		}
		c.CountN("grid", "random n in 3001..100000", 200000)
	}
	c.Extra("exhaustive_grid", c.Thorough())
	c.Extra("mismatches", mismatch)
	// the threshold as text (voteproofs and parameters carry it as text): writing and reading it back must not change a
	// single count
	for t10 := uint64(510); t10 <= 1000; t10++ {
		th := base.Threshold(float64(t10) / 10)
		b, err := th.MarshalText()
		var back base.Threshold
		if err == nil {
			err = back.UnmarshalText(b)
		}
		c.Eval(1)
		if err != nil {
			c.Violation("C02:threshold-text-round-trip", fmt.Sprintf("threshold %.1f: %v", float64(t10)/10, err), map[string]uint64{"t10": t10})
			continue
		}
		for _, n := range []uint64{10, 100, 1000, 9973} {
			if got, want := uint64(back.Threshold(uint(n))), requiredExact(n, t10); got != want {
				c.Violation("C02:threshold-text-round-trip", fmt.Sprintf("threshold %.1f written as %q and read back requires %d of %d votes, exact ceil=%d", float64(t10)/10, string(b), got, n, want),
					map[string]uint64{"n": n, "t10": t10, "got": got, "want": want})
				break
			}
		}
	}
	// a call site: the node signs a suffrage-expel operation needs are DefaultThreshold.Threshold(n), also for large n
	// (where n - (n-1)/3 is one too few)
	env, err := newPoolEnv()
	if err != nil {
		return err
	}
	sizes := []int{4, 10, 103}
	if c.Thorough() {
		sizes = []int{4, 7, 10, 31, 100, 103, 106, 199}
	}
	for _, n := range sizes {
		lns := make([]base.LocalNode, n)
		nodes := make([]base.Node, n)
		for i := range lns {
			lns[i] = base.RandomLocalNode()
			nodes[i] = lns[i]
		}
		suf, err := isaac.NewSuffrage(nodes)
		if err != nil {
			return err
		}
		required := int(requiredExact(uint64(n), 670))
		for _, signs := range []int{required - 1, required} {
			pool, err := env.newPool()
			if err != nil {
				return err
			}
			sv := isaac.NewSuffrageVoting(lns[0].Address(), pool, func(util.Hash) (bool, error) { return false, nil }, func(base.SuffrageExpelOperation) error { return nil })
			fact := isaac.NewSuffrageExpelFact(lns[n-1].Address(), base.Height(33), base.Height(34), "no response")
			op := isaac.NewSuffrageExpelOperation(fact)
			for i := 0; i < signs; i++ {
				_ = op.NodeSign(lns[i].Privatekey(), hNetworkID, lns[i].Address())
			}
			if _, err := sv.Vote(op); err != nil {
				return err
			}
			found, err := sv.Find(context.Background(), base.Height(33), suf)
			_ = pool.Close()
			if err != nil {
				return err
			}
			c.Eval(1)
			c.Count("expel-sign-count", fmt.Sprintf("n=%d signs=%d found=%d", n, signs, len(found)))
			if (signs >= required) != (len(found) == 1) {
				c.Violation("C02:call-site-counts-differently", fmt.Sprintf("suffrage of %d nodes, threshold 67%%: an expel operation with %d node signs is found=%v, required is ceil(n*67/100)=%d", n, signs, len(found) == 1, required),
					map[string]int{"n": n, "signs": signs, "required": required})
			}
		}
	}
	return nil
}
