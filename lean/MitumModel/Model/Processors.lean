import MitumModel.Common
/-
Model of isaac/proposal_processors.go (ProposalProcessors.Process / Save / Cancel,
each under the one mutex `l`; Process keeps it until the run has finished) together
with the part of DefaultProposalProcessor they drive (Process, Save, Cancel, save).

A proposal is a number `pid`; `hOf pid` is its height; the manifest the processor
computes for it is identified with `pid` (a deterministic function of the proposal,
C10).  An ACCEPT voteproof is (height, new block of its majority).
-/
namespace Mitum.Processors

structure Proc where
  pid : Nat
  manifest : Option Nat     -- some after Process succeeded
  cancelled : Bool
  saved : Bool
deriving Repr, DecidableEq

structure Saved where
  height : Nat              -- height of the block the writer saved (the proposal's)
  pid : Nat
  newBlock : Nat            -- new block of the ACCEPT majority it was saved under
deriving Repr, DecidableEq

structure St where
  cur : Option Proc
  prev : Nat                -- previousSaved; 0 = NilHeight (real heights are positive)
  log : List Saved
deriving Repr, DecidableEq

def init : St := { cur := none, prev := 0, log := [] }

inductive Op where
  | process (pid : Nat)            -- a proposal that can be fetched
  | processUnknown                 -- a proposal fact nobody delivers
  | save (pid avpHeight newBlock : Nat)
  /-- like `save`, but the writer stores the block and the call is then reported as cancelled
  (`context.Canceled` out of the writer's Save) -/
  | saveCanceled (pid avpHeight newBlock : Nat)
  | cancel
deriving Repr, DecidableEq

inductive Res where
  | manifest | nil | ok | alreadySaved | notProcessed | canceled
deriving Repr, DecidableEq

/-- the height of proposal `pid` (any function; the harness uses two proposals per height) -/
def hOf (pid : Nat) : Nat := 33 + pid / 2

def cancelCur (c : Option Proc) : Option Proc := c.map (fun p => { p with cancelled := true })

def step (s : St) : Op → St × Res
  | .process pid =>
    match s.cur with
    | some p =>
      if p.pid = pid then (s, .nil)      -- "proposal already processed": nothing new, whatever its state
      else ({ s with cur := some { pid := pid, manifest := some pid, cancelled := false, saved := false } }, .manifest)
    | none => ({ s with cur := some { pid := pid, manifest := some pid, cancelled := false, saved := false } }, .manifest)
  | .processUnknown =>
    -- the running processor is cancelled first, then the fetch fails; the cancelled one stays current
    ({ s with cur := cancelCur s.cur }, .notProcessed)
  | .save pid avpHeight nb =>
    if avpHeight ≤ s.prev then ({ s with cur := none }, .alreadySaved)
    else match s.cur with
      | none => (s, .notProcessed)
      | some p =>
        if p.pid ≠ pid then ({ s with cur := none }, .notProcessed)
        else
          let s1 : St := { s with prev := avpHeight, cur := none }   -- previousSaved is set before the processor saves
          if p.saved then (s1, .alreadySaved)
          else if p.cancelled then (s1, .canceled)
          else if p.manifest ≠ some nb then (s1, .notProcessed)
          else ({ s1 with log := s.log ++ [{ height := hOf p.pid, pid := p.pid, newBlock := nb }] }, .ok)
  | .saveCanceled pid avpHeight nb =>
    if avpHeight ≤ s.prev then ({ s with cur := none }, .alreadySaved)
    else match s.cur with
      | none => (s, .notProcessed)
      | some p =>
        if p.pid ≠ pid then ({ s with cur := none }, .notProcessed)
        else
          let s1 : St := { s with prev := avpHeight, cur := none }
          if p.saved then (s1, .alreadySaved)
          else if p.cancelled then (s1, .canceled)
          else if p.manifest ≠ some nb then (s1, .notProcessed)
          -- the block is written; the caller is told "not processed"; previousSaved keeps the height
          else ({ s1 with log := s.log ++ [{ height := hOf p.pid, pid := p.pid, newBlock := nb }] }, .notProcessed)
  | .cancel => ({ s with cur := none }, .ok)

def run (s : St) : List Op → St
  | [] => s
  | o :: r => run (step s o).1 r

/-- save calls as the consensus handlers make them: the ACCEPT voteproof is of the proposal's height -/
def wfOp : Op → Prop
  | .save pid avpHeight _ => avpHeight = hOf pid
  | .saveCanceled pid avpHeight _ => avpHeight = hOf pid
  | _ => True

end Mitum.Processors
