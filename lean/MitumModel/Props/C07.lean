import MitumModel.Model.Selector
import MitumModel.Lemmas.Sort
import MitumModel.Gen.C07
import MitumModel.Pins
/-!
C07  Proposer selection is deterministic and picks a suffrage member.
-/
namespace Mitum.C07
open Mitum Mitum.Selector

theorem strLe_total (a b : String) : strLe a b = true ∨ strLe b a = true := by
  unfold strLe; simp only [decide_eq_true_eq]; exact String.le_total a b

theorem strLe_trans (a b c : String) (h1 : strLe a b = true) (h2 : strLe b c = true) :
    strLe a c = true := by
  unfold strLe at *; simp only [decide_eq_true_eq] at *; exact String.le_trans h1 h2

theorem strLe_antisymm (a b : String) (h1 : strLe a b = true) (h2 : strLe b a = true) : a = b := by
  unfold strLe at *; simp only [decide_eq_true_eq] at *; exact String.le_antisymm h1 h2

/-- ✦ whatever order the suffrage nodes are listed in, the same proposer is selected. -/
theorem select_perm_invariant (prev : List Nat) (h r : Nat) (n₁ n₂ : List String)
    (hp : n₁.Perm n₂) : select prev h r n₁ = select prev h r n₂ := by
  have hs : sortBy strLe n₁ = sortBy strLe n₂ :=
    sortBy_eq_of_perm strLe strLe_total strLe_trans strLe_antisymm n₁ n₂ hp
  have hl := hp.length_eq
  unfold select
  match n₁, n₂, hp, hs, hl with
  | [], [], _, _, _ => rfl
  | [a], [b], hp, _, _ =>
    have : a = b := by simpa using hp
    rw [this]
  | a :: b :: t, c :: d :: u, _, hs, _ => simp only [hs]
  | [], _ :: _, _, _, hl => simp at hl
  | _ :: _, [], _, _, hl => simp at hl
  | [_], _ :: _ :: _, _, _, hl => simp at hl
  | _ :: _ :: _, [_], _, _, hl => simp at hl

/-- ✦ the selected proposer is a member of the suffrage; a non-empty suffrage always selects. -/
theorem select_mem (prev : List Nat) (h r : Nat) (nodes : List String) (hne : nodes ≠ []) :
    ∃ p, select prev h r nodes = some p ∧ p ∈ nodes := by
  unfold select
  match nodes, hne with
  | [n], _ => exact ⟨n, rfl, by simp⟩
  | a :: b :: t, _ =>
    simp only
    have hperm := sortBy_perm strLe (a :: b :: t)
    have hlen : 0 < (sortBy strLe (a :: b :: t)).length := by
      rw [hperm.length_eq]; simp
    have hlt : seed prev h r % (sortBy strLe (a :: b :: t)).length < (sortBy strLe (a :: b :: t)).length :=
      Nat.mod_lt _ hlen
    refine ⟨(sortBy strLe (a :: b :: t))[seed prev h r % (sortBy strLe (a :: b :: t)).length], ?_, ?_⟩
    · exact List.getElem?_eq_getElem hlt
    · exact hperm.subset (List.getElem_mem hlt)

/-- ✦ a single-node suffrage selects that node. -/
theorem select_single (prev : List Nat) (h r : Nat) (n : String) : select prev h r [n] = some n := rfl

/-- ✦ tie to the source -/
theorem source_pinned : Gen.C07.extractErrors = [] ∧ Gen.C07.pins = Pins.C07 := by
  refine ⟨by decide, by decide⟩

example : select [1, 2, 3] 7 0 ["c", "a", "b"] = some "b" := by decide
example : select [1, 2, 3] 7 0 ["b", "c", "a"] = some "b" := by decide

end Mitum.C07
