package main

import (
	"bufio"
	"context"
	"encoding/json"
	"fmt"
	"os"
	"os/exec"
	"strings"
	"sync"
	"sync/atomic"
	"time"

	"github.com/pkg/errors"
	"github.com/spikeekips/mitum/base"
	"github.com/spikeekips/mitum/isaac"
	isaacblock "github.com/spikeekips/mitum/isaac/block"
	"github.com/spikeekips/mitum/util"
	"github.com/spikeekips/mitum/util/fixedtree"
	"github.com/spikeekips/mitum/util/valuehash"
)

func init() {
	register("C18", runC18)
	registerChild("c18", childC18)
}

// stub suffrage proof: chain id + suffrage height; Prove succeeds iff the previous state is the state of
// (same chain, height-1) — or there is no previous state and this is the genesis proof
type c18proof struct {
	chain, sh int
	st        base.State
	prevHash  util.Hash
	gate      *c18gate // proofs around a foreign junction meet inside the builder's prove step, when the builder lets them
	calls     *int32
}

// c18gate: the builder asks a proof for its height once when the response arrives and once more at the start of its
// prove step.  The proofs on both sides of a foreign junction wait there for each other, for a few milliseconds: a
// builder that proves one proof at a time never lets two of them in, and the wait just times out
type c18gate struct {
	sync.Mutex
	need, arrived int
	open          chan struct{}
}

func (g *c18gate) wait() {
	g.Lock()
	g.arrived++
	if g.arrived == g.need {
		close(g.open)
	}
	g.Unlock()
	select {
	case <-g.open:
	case <-time.After(3 * time.Millisecond):
	}
}

func (p c18proof) IsValid([]byte) error             { return nil }
func (p c18proof) Map() base.BlockMap               { return nil }
func (p c18proof) State() base.State                { return p.st }
func (p c18proof) Proof() fixedtree.Proof           { return fixedtree.Proof{} }
func (p c18proof) Suffrage() (base.Suffrage, error) { return nil, errors.Errorf("stub") }
func (p c18proof) SuffrageHeight() base.Height {
	if p.gate != nil && atomic.AddInt32(p.calls, 1) == 2 {
		p.gate.wait()
	}
	return base.Height(p.sh)
}
func (p c18proof) Prove(previous base.State) error {
	switch {
	case previous == nil && p.sh == 0:
		return nil
	case previous == nil:
		return errors.Errorf("no previous state")
	case p.prevHash == nil || !previous.Hash().Equal(p.prevHash):
		return errors.Errorf("previous state does not match")
	}
	return nil
}

type c18world struct {
	sync.Mutex
	node   base.Node
	states map[[2]int]base.State
}

func (w *c18world) state(chain, sh int) base.State {
	w.Lock()
	defer w.Unlock()
	k := [2]int{chain, sh}
	if st, ok := w.states[k]; ok {
		return st
	}
	sv := isaac.NewSuffrageNodesStateValue(base.Height(sh), []base.SuffrageNodeStateValue{isaac.NewSuffrageNodeStateValue(w.node, base.Height(sh))})
	st := base.NewBaseState(base.Height(sh*2+chain), isaac.SuffrageStateKey, sv, valuehash.RandomSHA256(), []util.Hash{valuehash.RandomSHA256()})
	w.states[k] = st
	return st
}

func (w *c18world) proof(chain, sh int) c18proof {
	p := c18proof{chain: chain, sh: sh, st: w.state(chain, sh)}
	if sh > 0 {
		p.prevHash = w.state(chain, sh-1).Hash()
	}
	return p
}

// a real suffrage proof of the genesis block: manifest, suffrage state of (chain 0, height 0), and the tree proof of
// another state of that block
func c18forgedGenesis(w *c18world) (base.SuffrageProof, error) {
	st := w.state(0, 0)
	other := base.NewBaseState(base.GenesisHeight, "k-"+util.UUID().String(), base.NewDummyStateValue(util.UUID().String()), nil, []util.Hash{valuehash.RandomSHA256()})
	tr, err := c13tree([]string{other.Hash().String(), valuehash.RandomSHA256().String()})
	if err != nil {
		return nil, err
	}
	proof, err := fixedtree.NewProofFromNodes(tr.Nodes(), other.Hash().String())
	if err != nil {
		return nil, err
	}
	manifest := isaac.NewManifest(base.GenesisHeight, nil, valuehash.RandomSHA256(), nil, tr.Root(), st.Hash(), time.Now().UTC())
	return isaacblock.NewSuffrageProof(c13map{m: manifest}, st, proof), nil
}

type c18case struct {
	Local int      `json:"local"` // -1 = no local state
	Last  int      `json:"last"`
	Resp  []string `json:"resp"` // per requested height from local+1..last: "-" not found, or "chain.height"
	Kind  string   `json:"kind"`
	// the remote's last proof is at or below the local suffrage height but sits on a newer block
	StaleLastNewerBlock bool `json:"stale_last_newer_block"`
}

func (c *Ctx) c18gen(big bool) c18case {
	if !big && c.Chance(1, 12) { // stale / forked last proof: suffrage height not above the local one
		local := 1 + c.Intn(5)
		last := c.Intn(local + 1)
		return c18case{Local: local, Last: last, Kind: "stale-last", StaleLastNewerBlock: c.Bool()}
	}
	local := c.Intn(6) - 1
	n := 1 + c.Intn(10)
	if big {
		n = 300 + c.Intn(450) // crosses the 333 batch limit
	}
	last := local + n
	cs := c18case{Local: local, Last: last, Kind: "valid"}
	for h := local + 1; h <= last; h++ {
		cs.Resp = append(cs.Resp, fmt.Sprintf("0.%d", h))
	}
	switch k := c.Intn(12); {
	case k < 4:
	case k < 5:
		cs.Resp[c.Intn(n)] = "-"
		cs.Kind = "missing"
	case k < 7 && local >= 0:
		cs.Resp[c.Intn(n)] = fmt.Sprintf("0.%d", c.Intn(local+1)) // a proof at or below the local height
		cs.Kind = "below-local"
	case k < 8 && n >= 2:
		i, j := c.Intn(n), c.Intn(n)
		if i != j {
			cs.Resp[i] = cs.Resp[j]
			cs.Kind = "duplicated-height"
		}
	case k < 9 && local < 0 && c.Bool():
		// the genesis proof is a real isaacblock.SuffrageProof whose tree proof is that of another state: well formed, and
		// it proves nothing
		cs.Resp[0] = "g.0"
		cs.Kind = "forged-genesis"
	case k < 9:
		i := c.Intn(n)
		if local+1+i > 0 { // a foreign genesis proof has no predecessor to be checked against
			cs.Resp[i] = fmt.Sprintf("1.%d", local+1+i) // same height, foreign chain
			cs.Kind = "foreign-chain"
		}
	case k < 10:
		i := c.Intn(n)
		cs.Resp[i] = fmt.Sprintf("0.%d", last+1+c.Intn(5))
		cs.Kind = "above-last"
	case k < 11 && n >= 2:
		i := c.Intn(n - 1)
		cs.Resp[i], cs.Resp[i+1] = cs.Resp[i+1], cs.Resp[i]
		cs.Kind = "swapped"
	}
	return cs
}

func (cs c18case) line() string {
	return strings.TrimSpace(fmt.Sprintf("b %d %d %s %s", cs.Local, cs.Last, b01(cs.StaleLastNewerBlock), strings.Join(cs.Resp, " ")))
}

// run one case against the real builder (may crash the process: a panic inside a worker goroutine)
func c18run(cs c18case) string {
	w := &c18world{node: base.RandomNode(), states: map[[2]int]base.State{}}
	var localst base.State
	if cs.Local >= 0 {
		localst = w.state(0, cs.Local)
	}
	lastp := w.proof(0, cs.Last)
	if cs.StaleLastNewerBlock { // same suffrage height / chain identity, but a state on a much newer block
		sv := isaac.NewSuffrageNodesStateValue(base.Height(cs.Last), []base.SuffrageNodeStateValue{isaac.NewSuffrageNodeStateValue(w.node, base.Height(cs.Last))})
		lastp.st = base.NewBaseState(base.Height(1000), isaac.SuffrageStateKey, sv, valuehash.RandomSHA256(), []util.Hash{valuehash.RandomSHA256()})
	}
	// the responses on both sides of a foreign junction
	gated := map[int]bool{}
	var gate *c18gate
	if cs.Kind == "foreign-chain" {
		for i, r := range cs.Resp {
			if strings.HasPrefix(r, "1.") {
				for _, j := range []int{i - 1, i, i + 1} {
					if j >= 0 && j < len(cs.Resp) && cs.Resp[j] != "-" {
						gated[j] = true
					}
				}
			}
		}
		gate = &c18gate{need: len(gated), open: make(chan struct{})}
	}
	var fetched sync.Map
	b := isaac.NewSuffrageStateBuilder(hNetworkID,
		func(context.Context) (base.Height, base.SuffrageProof, bool, error) {
			return base.Height(cs.Last * 2), lastp, true, nil
		},
		func(_ context.Context, h base.Height) (base.SuffrageProof, bool, error) {
			i := int(h) - cs.Local - 1
			if i < 0 || i >= len(cs.Resp) || cs.Resp[i] == "-" {
				return nil, false, nil
			}
			if cs.Resp[i] == "g.0" {
				p, err := c18forgedGenesis(w)
				return p, err == nil, err
			}
			var ch, sh int
			fmt.Sscanf(cs.Resp[i], "%d.%d", &ch, &sh)
			p := w.proof(ch, sh)
			if _, again := fetched.LoadOrStore(i, true); gated[i] && !again && gate.need > 1 {
				p.gate, p.calls = gate, new(int32)
			}
			return p, true, nil
		},
		func(context.Context) (base.State, bool, error) { return nil, false, nil },
	)
	_, proofs, _, err := b.Build(context.Background(), localst)
	if err != nil {
		if os.Getenv("C18_DEBUG") != "" {
			fmt.Fprintf(os.Stderr, "%+v\n", err)
		}
		return "err"
	}
	var hs []string
	for _, p := range proofs {
		if p == nil {
			hs = append(hs, "nil")
		} else {
			hs = append(hs, fmt.Sprint(int(p.SuffrageHeight())))
		}
	}
	return "ok " + strings.Join(hs, ",")
}

// child: reads JSON cases from stdin, prints one result line per case (flushed)
func childC18(args []string) int {
	sc := bufio.NewScanner(os.Stdin)
	sc.Buffer(make([]byte, 1<<20), 1<<24)
	out := bufio.NewWriter(os.Stdout)
	for sc.Scan() {
		var cs c18case
		if err := json.Unmarshal(sc.Bytes(), &cs); err != nil {
			return 2
		}
		fmt.Fprintln(out, c18run(cs))
		out.Flush()
	}
	return 0
}

func c18child(cases []c18case) ([]string, bool) {
	cmd := exec.Command(os.Args[0], "child", "c18")
	var in strings.Builder
	for _, cs := range cases {
		b, _ := json.Marshal(cs)
		in.Write(b)
		in.WriteByte('\n')
	}
	cmd.Stdin = strings.NewReader(in.String())
	outb, err := cmd.Output()
	lines := strings.Split(strings.TrimRight(string(outb), "\n"), "\n")
	if len(outb) == 0 {
		lines = nil
	}
	return lines, err == nil && len(lines) == len(cases)
}

func runC18(c *Ctx) error {
	n := 600
	nbig := 6
	if c.Thorough() {
		n, nbig = 12000, 120
	}
	var cases []c18case
	for i := 0; i < n; i++ {
		cases = append(cases, c.c18gen(false))
	}
	for i := 0; i < nbig; i++ {
		cases = append(cases, c.c18gen(true))
	}
	results := make([]string, len(cases))
	for start := 0; start < len(cases); start += 100 {
		end := start + 100
		if end > len(cases) {
			end = len(cases)
		}
		lines, ok := c18child(cases[start:end])
		if ok {
			copy(results[start:end], lines)
			continue
		}
		// a case crashed the child: run them one by one
		for i := start; i < end; i++ {
			l, ok := c18child(cases[i : i+1])
			if ok {
				results[i] = l[0]
			} else {
				results[i] = "panic"
			}
		}
	}
	for i, cs := range cases {
		res := results[i]
		c.Case(cs.line(), res)
		c.Count("kind", cs.Kind)
		c.Count("result", strings.SplitN(res, " ", 2)[0])
		in := map[string]interface{}{"case": cs}
		switch {
		case res == "panic":
			c.Violation("C18:panic", fmt.Sprintf("Build crashed the process (%s): %s", cs.Kind, cs.line()[:min(len(cs.line()), 200)]), in)
		case strings.HasPrefix(res, "ok") && cs.Kind == "stale-last":
			if strings.TrimSpace(strings.TrimPrefix(res, "ok")) != "" {
				c.Violation("C18:stale-last-proof-accepted", fmt.Sprintf("local suffrage height %d, remote last %d (newer block: %v): Build returned %s without error", cs.Local, cs.Last, cs.StaleLastNewerBlock, res), in)
			}
		case strings.HasPrefix(res, "ok"):
			// gap-free chain local+1 .. last, then the last proof again
			want := []string{}
			for h := cs.Local + 1; h <= cs.Last; h++ {
				want = append(want, fmt.Sprint(h))
			}
			want = append(want, fmt.Sprint(cs.Last))
			if strings.TrimPrefix(res, "ok ") != strings.Join(want, ",") || cs.Kind != "valid" {
				cls := "C18:chain-not-gap-free"
				if len(cs.Resp) > 333 {
					cls = "C18:earlier-batches-dropped"
				}
				if cs.Kind != "valid" && strings.TrimPrefix(res, "ok ") == strings.Join(want, ",") {
					cls = "C18:bad-response-accepted"
				}
				r := res
				if len(r) > 120 {
					r = r[:120] + "…"
				}
				c.Violation(cls, fmt.Sprintf("local %d, last %d, %s responses: Build returned %s", cs.Local, cs.Last, cs.Kind, r), in)
			}
		default:
			if cs.Kind == "valid" || (cs.Kind == "stale-last" && !cs.StaleLastNewerBlock) {
				c.Violation("C18:valid-chain-rejected", cs.line()[:min(len(cs.line()), 200)], in)
			}
		}
		if len(cs.Resp) >= 3 {
			c.Nontrivial(cs.line())
		}
		if i%150 == 0 {
			c.Sample(map[string]interface{}{"local": cs.Local, "last": cs.Last, "kind": cs.Kind, "result": res[:min(len(res), 60)]})
		}
	}
	return nil
}
