package main

import (
	"go/ast"
	"strings"
)

func init() { register("C02", genC02) }

// C02: translate the body of base.Threshold.Threshold.  The repaired code is
//   t10 := uint64(math.Round(t.Float64() * 10)); return uint((uint64(quorum)*t10 + 999) / 1000)
// The return expression is translated to a Lean Nat function of (quorum, t10);
// the definition of t10 is recorded as text.  Any other shape (e.g. the float
// ceil) yields `thresholdTranslated = false` and the proof obligation fails.
func genC02(o *Out) {
	f, err := load("base/threshold.go")
	if err != nil {
		o.errf("base/threshold.go: %v", err)
		return
	}
	fd := f.Func("Threshold", "Threshold")
	translated := false
	expr := "0"
	t10def := ""
	if fd == nil {
		o.errf("base/threshold.go: Threshold.Threshold not found")
	} else {
		param := ""
		if len(fd.Type.Params.List) == 1 && len(fd.Type.Params.List[0].Names) == 1 {
			param = fd.Type.Params.List[0].Names[0].Name
		}
		env := map[string]string{param: "quorum"}
		// local := definitions of the form  t10 := uint64(math.Round(t.Float64() * 10))
		for _, st := range fd.Body.List {
			if as, ok := st.(*ast.AssignStmt); ok && len(as.Lhs) == 1 && len(as.Rhs) == 1 {
				if id, ok := as.Lhs[0].(*ast.Ident); ok {
					src := strings.Join(strings.Fields(f.Src(as.Rhs[0])), "")
					if src == "uint64(math.Round(t.Float64()*10))" || src == "uint(math.Round(t.Float64()*10))" {
						env[id.Name] = "t10"
						t10def = src
					}
				}
			}
		}
		rs := returnsOf(fd)
		if len(rs) == 1 && len(rs[0].Results) == 1 {
			if s, ok := natExpr(rs[0].Results[0], env); ok {
				expr, translated = s, true
			}
		}
	}
	o.boolean("thresholdTranslated", translated)
	o.str("t10Definition", t10def)
	o.raw("/-- translated return expression of `Threshold.Threshold` -/")
	o.raw("def thresholdReturn (quorum t10 : Nat) : Nat := " + expr)
}
