import MitumModel.Model.ProposalMaker
import MitumModel.Props.C24
import MitumModel.Props.C22
import MitumModel.Gen.C38
import MitumModel.Pins
/-!
C38  The local node proposes at most one proposal per position.
-/
namespace Mitum.C38
open Mitum.ProposalMaker
open Mitum.BallotPool (Triple proposalByPoint setProposal lookupN lookupT getProposal)

/-- invariant: the maker's fresh ids are above every stored fact id below `bound`-range, i.e. a
    new fact id is never already stored; foreign facts live at or above `bound` -/
def Inv (bound : Nat) (s : State) : Prop :=
  s.next ≤ bound ∧ ∀ f x, (f, x) ∈ s.pool.props → f < s.next ∨ bound ≤ f

theorem inv_init (bound : Nat) (hb : 1 ≤ bound) : Inv bound init := by
  refine ⟨hb, ?_⟩
  intro f x h; simp [init, BallotPool.init] at h

theorem lookupN_none_of_fresh (bound : Nat) (s : State) (h : Inv bound s) (hlt : s.next < bound) :
    lookupN s.next s.pool.props = none := by
  cases hl : lookupN s.next s.pool.props with
  | none => rfl
  | some x =>
    have := C24.lookupN_mem s.next s.pool.props x hl
    rcases h.2 s.next x this with h1 | h1 <;> omega

theorem lookupT_append_ne (t t' : Triple) (f : Nat) (l : List (Triple × Nat)) (hne : t' ≠ t) :
    lookupT t (l.filter (fun e => !(e.1 = t')) ++ [(t', f)]) = lookupT t l := by
  induction l with
  | nil => simp [lookupT, hne]
  | cons e rest ih =>
    obtain ⟨t0, f0⟩ := e
    by_cases h0 : t0 = t'
    · subst h0
      simp only [List.filter_cons, decide_true, Bool.not_true, Bool.false_eq_true, if_false]
      rw [ih]; simp [lookupT, hne]
    · have : (!decide (t0 = t')) = true := by simpa using h0
      simp only [List.filter_cons, this, if_true, List.cons_append, lookupT]
      by_cases h1 : t0 = t
      · simp [h1]
      · simp [h1, ih]

/-- storing a proposal for a *different* triple under a fact id that is not stored yet leaves the
    lookup of `t` unchanged -/
theorem byPoint_stable_other (pool : BallotPool.State) (t t' : Triple) (f p : Nat) (pid : Nat)
    (hne : t' ≠ t) (hcur : proposalByPoint pool t = some pid) (hfresh : lookupN f pool.props = none) :
    proposalByPoint (setProposal pool f t' p).1 t = some pid := by
  unfold setProposal
  simp only [hfresh]
  unfold proposalByPoint at hcur ⊢
  simp only [lookupT_append_ne t t' f pool.pidx hne]
  cases hf : lookupT t pool.pidx with
  | none => simp [hf] at hcur
  | some f0 =>
    simp only [hf] at hcur ⊢
    unfold getProposal at hcur ⊢
    rw [C24.lookupN_append]
    cases hp : lookupN f0 pool.props with
    | none => simp [hp] at hcur
    | some x => simpa [hp] using hcur

theorem byPoint_refused (pool : BallotPool.State) (t t' : Triple) (f p : Nat) (x : Triple × Nat)
    (hstored : lookupN f pool.props = some x) :
    proposalByPoint (setProposal pool f t' p).1 t = proposalByPoint pool t := by
  unfold setProposal; simp [hstored]

/-- ✦ one step keeps the pooled proposal of the local triple `t` (foreign proposals are for
    other proposers: their triple differs from `t`). -/
theorem step_keeps (bound : Nat) (s : State) (hinv : Inv bound s) (t : Triple) (pid : Nat)
    (hcur : proposalByPoint s.pool t = some pid) (op : Op)
    (hforeign : ∀ f t' p, op = Op.foreign f t' p → t' ≠ t ∧ bound ≤ f)
    (hroom : s.next < bound) :
    proposalByPoint (step s op).1.pool t = some pid ∧ Inv bound (step s op).1 ∧
    (∀ t0 ops, op = Op.make t0 ops ∨ op = Op.makeFail t0 ops → t0 = t → (step s op).2 = some pid) := by
  cases op with
  | makeFail t0 ops =>
    simp only [step]
    cases hb : proposalByPoint s.pool t0 with
    | some p0 =>
      refine ⟨hcur, hinv, ?_⟩
      intro t1 ops1 heq ht
      rcases heq with heq | heq
      · cases heq
      · injection heq with h1 _; subst h1; subst ht
        rw [hcur] at hb; injection hb with hb; rw [hb]
    | none =>
      have hne : t0 ≠ t := by intro h; rw [h, hcur] at hb; cases hb
      refine ⟨hcur, ⟨by simp only; omega, ?_⟩, ?_⟩
      · intro f x hm
        rcases hinv.2 f x hm with h1 | h1
        · left; simp only; omega
        · right; exact h1
      · intro t1 ops1 heq ht
        rcases heq with heq | heq
        · cases heq
        · injection heq with h1 _; exact absurd (h1 ▸ ht) hne
  | make t0 ops =>
    simp only [step, make]
    cases hb : proposalByPoint s.pool t0 with
    | some p0 =>
      refine ⟨hcur, hinv, ?_⟩
      intro t1 ops1 heq ht
      rcases heq with heq | heq
      · injection heq with h1 _; subst h1; subst ht
        rw [hcur] at hb; injection hb with hb; rw [hb]
      · cases heq
    | none =>
      have hne : t0 ≠ t := by intro h; rw [h, hcur] at hb; cases hb
      have hfresh := lookupN_none_of_fresh bound s hinv hroom
      refine ⟨byPoint_stable_other s.pool t t0 s.next s.next pid hne hcur hfresh, ?_, ?_⟩
      · refine ⟨by simp only; omega, ?_⟩
        intro f x hm
        simp only [setProposal, hfresh] at hm
        rcases List.mem_append.mp hm with hm | hm
        · rcases hinv.2 f x hm with h1 | h1
          · left; simp only; omega
          · right; exact h1
        · simp at hm; left; simp only; omega
      · intro t1 ops1 heq ht
        rcases heq with heq | heq
        · injection heq with h1 _; exact absurd (h1 ▸ ht) hne
        · cases heq
  | foreign f t' p =>
    obtain ⟨hne, hbf⟩ := hforeign f t' p rfl
    simp only [step]
    refine ⟨?_, ?_, by intro t0 ops h; rcases h with h | h <;> cases h⟩
    · cases hl : lookupN f s.pool.props with
      | none => exact byPoint_stable_other s.pool t t' f p pid hne hcur hl
      | some x => rw [byPoint_refused s.pool t t' f p x hl]; exact hcur
    · refine ⟨hinv.1, ?_⟩
      intro f0 x hm
      simp only [setProposal] at hm
      cases hl : lookupN f s.pool.props with
      | some y => simp only [hl] at hm; exact hinv.2 f0 x hm
      | none =>
        simp only [hl] at hm
        rcases List.mem_append.mp hm with hm | hm
        · exact hinv.2 f0 x hm
        · simp at hm; right; omega

/-- a history is admissible for the local triple `t` when foreign proposals are for other triples
    (other proposers) with ids from the foreign range, and the maker does not run out of ids -/
def Admissible (bound : Nat) (t : Triple) : State → List Op → Prop
  | _, [] => True
  | s, op :: rest =>
    (∀ f t' p, op = Op.foreign f t' p → t' ≠ t ∧ bound ≤ f) ∧ s.next < bound ∧
    Admissible bound t (step s op).1 rest

/-- results of all `make` calls for triple `t` in a history -/
def resultsFor (t : Triple) : State → List Op → List Nat
  | _, [] => []
  | s, op :: rest =>
    let r := step s op
    match op, r.2 with
    | Op.make t0 _, some p => if t0 = t then p :: resultsFor t r.1 rest else resultsFor t r.1 rest
    | Op.makeFail t0 _, some p => if t0 = t then p :: resultsFor t r.1 rest else resultsFor t r.1 rest
    | _, _ => resultsFor t r.1 rest

theorem results_all_eq (bound : Nat) (t : Triple) (pid : Nat) (ops : List Op) : ∀ (s : State),
    Inv bound s → proposalByPoint s.pool t = some pid → Admissible bound t s ops →
    ∀ x ∈ resultsFor t s ops, x = pid := by
  induction ops with
  | nil => intro s _ _ _ x hx; simp [resultsFor] at hx
  | cons op rest ih =>
    intro s hinv hcur hadm x hx
    obtain ⟨hf, hroom, hrest⟩ := hadm
    obtain ⟨hk, hinv', hres⟩ := step_keeps bound s hinv t pid hcur op hf hroom
    unfold resultsFor at hx
    cases op with
    | make t0 ops0 =>
      simp only at hx
      cases hr : (step s (Op.make t0 ops0)).2 with
      | none => simp only [hr] at hx; exact ih _ hinv' hk hrest x hx
      | some p =>
        simp only [hr] at hx
        by_cases ht : t0 = t
        · subst ht
          simp only [if_true] at hx
          rcases List.mem_cons.mp hx with rfl | hx'
          · have := hres t0 ops0 (Or.inl rfl) rfl; rw [hr] at this; injection this
          · exact ih _ hinv' hk hrest x hx'
        · simp only [ht, if_false] at hx
          exact ih _ hinv' hk hrest x hx
    | makeFail t0 ops0 =>
      simp only at hx
      cases hr : (step s (Op.makeFail t0 ops0)).2 with
      | none => simp only [hr] at hx; exact ih _ hinv' hk hrest x hx
      | some p =>
        simp only [hr] at hx
        by_cases ht : t0 = t
        · subst ht
          simp only [if_true] at hx
          rcases List.mem_cons.mp hx with rfl | hx'
          · have := hres t0 ops0 (Or.inr rfl) rfl; rw [hr] at this; injection this
          · exact ih _ hinv' hk hrest x hx'
        · simp only [ht, if_false] at hx
          exact ih _ hinv' hk hrest x hx
    | foreign f t' p =>
      simp only [step] at hx
      exact ih _ hinv' hk hrest x hx

/-- ✦ `make_stable`: in every admissible history (any number of `Make`/`PreferEmpty` calls for
    any points, interleaved in any order with proposals of other proposers entering the pool),
    all proposals returned for one (point, previous block) are the same signed proposal. -/
theorem make_stable (bound : Nat) (hb : 1 ≤ bound) (t : Triple) (ops : List Op)
    (hadm : Admissible bound t init ops) :
    ∀ x ∈ resultsFor t init ops, ∀ y ∈ resultsFor t init ops, x = y := by
  -- split at the first make for t: before it nothing is returned for t; from it on the pool holds it
  suffices h : ∀ (s : State), Inv bound s → Admissible bound t s ops →
      ∀ x ∈ resultsFor t s ops, ∀ y ∈ resultsFor t s ops, x = y from h init (inv_init bound hb) hadm
  clear hadm
  induction ops with
  | nil => intro s _ _ x hx; simp [resultsFor] at hx
  | cons op rest ih =>
    intro s hinv hadm x hx y hy
    cases hcur : proposalByPoint s.pool t with
    | some pid =>
      have h1 := results_all_eq bound t pid (op :: rest) s hinv hcur hadm
      rw [h1 x hx, h1 y hy]
    | none =>
      obtain ⟨hf, hroom, hrest⟩ := hadm
      -- one step from a state without a pooled proposal for t
      have hinv' : Inv bound (step s op).1 := by
        cases op with
        | makeFail t0 ops0 =>
          simp only [step]
          cases hb0 : proposalByPoint s.pool t0 with
          | some p0 => exact hinv
          | none =>
            refine ⟨by simp only; omega, ?_⟩
            intro f x hm
            rcases hinv.2 f x hm with h1 | h1
            · left; simp only; omega
            · right; exact h1
        | make t0 ops0 =>
          simp only [step, make]
          cases hb0 : proposalByPoint s.pool t0 with
          | some p0 => exact hinv
          | none =>
            have hfresh := lookupN_none_of_fresh bound s hinv hroom
            refine ⟨by simp only; omega, ?_⟩
            intro f x hm
            simp only [setProposal, hfresh] at hm
            rcases List.mem_append.mp hm with hm | hm
            · rcases hinv.2 f x hm with h1 | h1
              · left; simp only; omega
              · right; exact h1
            · simp at hm; left; simp only; omega
        | foreign f t' p =>
          obtain ⟨_, hbf⟩ := hf f t' p rfl
          simp only [step]
          refine ⟨hinv.1, ?_⟩
          intro f0 x hm
          simp only [setProposal] at hm
          cases hl : lookupN f s.pool.props with
          | some y => simp only [hl] at hm; exact hinv.2 f0 x hm
          | none =>
            simp only [hl] at hm
            rcases List.mem_append.mp hm with hm | hm
            · exact hinv.2 f0 x hm
            · simp at hm; right; omega
      unfold resultsFor at hx hy
      cases op with
      | foreign f t' p =>
        simp only [step] at hx hy
        exact ih _ hinv' hrest x hx y hy
      | makeFail t0 ops0 =>
        simp only at hx hy
        by_cases ht : t0 = t
        · subst ht
          -- nothing pooled for t: the failing call returns no proposal and leaves the pool as it is
          have hmk : (step s (Op.makeFail t0 ops0)).2 = none := by simp only [step, hcur]
          simp only [hmk] at hx hy
          exact ih _ hinv' hrest x hx y hy
        · cases hr : (step s (Op.makeFail t0 ops0)).2 with
          | none => simp only [hr] at hx hy; exact ih _ hinv' hrest x hx y hy
          | some p =>
            simp only [hr, ht, if_false] at hx hy
            exact ih _ hinv' hrest x hx y hy
      | make t0 ops0 =>
        simp only at hx hy
        by_cases ht : t0 = t
        · subst ht
          -- this call creates the proposal; afterwards the pool holds it
          have hmk : (step s (Op.make t0 ops0)).2 = some s.next := by
            simp only [step, make, hcur]
          have hpool : proposalByPoint (step s (Op.make t0 ops0)).1.pool t0 = some s.next := by
            simp only [step, make, hcur]
            have hfresh := lookupN_none_of_fresh bound s hinv hroom
            unfold setProposal proposalByPoint
            simp only [hfresh]
            have : lookupT t0 (s.pool.pidx.filter (fun e => !(e.1 = t0)) ++ [(t0, s.next)]) = some s.next := by
              generalize s.pool.pidx = l
              induction l with
              | nil => simp [lookupT]
              | cons e r ihl =>
                obtain ⟨t1, f1⟩ := e
                by_cases h1 : t1 = t0
                · simp [List.filter_cons, h1, ihl]
                · have : (!decide (t1 = t0)) = true := by simpa using h1
                  simp [List.filter_cons, this, lookupT, h1, ihl]
            simp only [this, getProposal]
            rw [C24.lookupN_append, hfresh]; simp [lookupN]
          simp only [hmk, if_true] at hx hy
          have hall := results_all_eq bound t0 s.next rest _ hinv' hpool hrest
          have ex : x = s.next := by
            rcases List.mem_cons.mp hx with h | h
            · exact h
            · exact hall x h
          have ey : y = s.next := by
            rcases List.mem_cons.mp hy with h | h
            · exact h
            · exact hall y h
          rw [ex, ey]
        · cases hr : (step s (Op.make t0 ops0)).2 with
          | none => simp only [hr] at hx hy; exact ih _ hinv' hrest x hx y hy
          | some p =>
            simp only [hr, ht, if_false] at hx hy
            exact ih _ hinv' hrest x hx y hy

/-- ✦ the operations listed by a made proposal are pairwise distinct in hash and in fact when
    they come from the operation pool (C22 `hashes_spec`). -/
theorem proposal_ops_distinct (limit : Nat) (pass : OpPool.Rec → Bool) (ps : OpPool.State) (h : C22.Inv ps) :
    ((OpPool.operationHashes limit pass ps).1.map (·.op)).Nodup ∧
    ((OpPool.operationHashes limit pass ps).1.map (·.fact)).Nodup :=
  ⟨(C22.hashes_spec limit pass ps h).2.2.1, (C22.hashes_spec limit pass ps h).2.1⟩

/-- a maker that hands out what it could not store makes a second, different proposal for the position at the next
    call (seeded change C38-D); the maker as extracted returns the error and then the one stored proposal -/
theorem unstored_proposal_witness :
    let t : Triple := ⟨31, 0, 0, 0⟩
    let a := stepLoose init (.makeFail t [])
    let b := stepLoose a.1 (.makeFail t [])
    let c := step init (.makeFail t [])
    let d := step c.1 (.make t [])
    a.2 = some 1 ∧ b.2 = some 2 ∧ c.2 = none ∧ d.2 = some 2 := by decide

/-- ✦ facts of the current source: both entry points hold the maker's mutex for the whole call,
    both paths consult the pool before making, a proposal that cannot be stored is not handed out; pins. -/
theorem facts_ok :
    Gen.C38.extractErrors = [] ∧ Gen.C38.makeLocked = true ∧ Gen.C38.preferEmptyLocked = true ∧
    Gen.C38.makeReturnsSetProposalError = true ∧ Gen.C38.pins = Pins.C38 := by
  refine ⟨by decide, by decide, by decide, by decide, by decide⟩

-- non-vacuity: an admissible history with two makes for one triple and a foreign proposal between
example : Admissible 1000 ⟨5, 0, 0, 1⟩ init
    [Op.make ⟨5, 0, 0, 1⟩ [], Op.foreign 2000 ⟨5, 0, 7, 1⟩ 2000, Op.make ⟨5, 0, 0, 1⟩ []] := by
  simp [Admissible, init, step, make, setProposal, proposalByPoint, lookupT, lookupN, BallotPool.init]
example : resultsFor ⟨5, 0, 0, 1⟩ init
    [Op.make ⟨5, 0, 0, 1⟩ [], Op.foreign 2000 ⟨5, 0, 7, 1⟩ 2000, Op.make ⟨5, 0, 0, 1⟩ []] = [1, 1] := by decide

end Mitum.C38
