import MitumModel.Model.FixedTree
import MitumModel.Gen.C12
import MitumModel.Pins
/-!
C12  Merkle fixed tree commits to every node and proofs are sound.
-/
namespace Mitum.C12
open Mitum.FixedTree

/-! ### index arithmetic -/

theorem log2_bounds (i : Nat) : 2 ^ indexHeight i ≤ i + 1 ∧ i + 1 < 2 ^ (indexHeight i + 1) := by
  unfold indexHeight
  exact ⟨Nat.log2_self_le (by omega), Nat.lt_log2_self⟩

/-- ✦ the code's level/position arithmetic computes the heap children `2i+1`, `2i+2`. -/
theorem children_eq (size i : Nat) :
    childrenCode size i = if size ≤ 2 * i + 1 then none else some (2 * i + 1, 2 * i + 2) := by
  obtain ⟨h1, h2⟩ := log2_bounds i
  unfold childrenCode
  simp only
  generalize indexHeight i = h at h1 h2
  have hp : 2 ^ (h + 1) = 2 * 2 ^ h := by rw [Nat.pow_succ]; omega
  rw [hp] at h2 ⊢
  generalize 2 ^ h = x at h1 h2
  have e1 : 2 * x - 1 + (i - (x - 1)) * 2 = 2 * i + 1 := by omega
  rw [e1]

/-- ✦ … and the heap parent `(i-1)/2` (none for the root). -/
theorem parent_eq (i : Nat) : parentCode i = if i = 0 then none else some ((i - 1) / 2) := by
  obtain ⟨h1, h2⟩ := log2_bounds i
  unfold parentCode
  simp only
  generalize hh : indexHeight i = h at h1 h2
  cases h with
  | zero =>
    have : i = 0 := by simp at h2; omega
    simp [this]
  | succ k =>
    have hp : 2 ^ (k + 1) = 2 * 2 ^ k := by rw [Nat.pow_succ]; omega
    have hp2 : 2 ^ (k + 1 + 1) = 4 * 2 ^ k := by rw [Nat.pow_succ, Nat.pow_succ]; omega
    rw [hp] at h1
    rw [hp2] at h2
    have hpos : 0 < 2 ^ k := Nat.pow_pos (by omega)
    have hi : i ≠ 0 := by omega
    simp only [Nat.succ_ne_zero, if_false, hi, Nat.add_sub_cancel, hp]
    generalize 2 ^ k = x at h1 h2 hpos
    congr 1
    split <;> omega

/-! ### validity -/

section
variable {η : Type} [DecidableEq η] (nh : Bytes → Option η → Option η → η)

/-- what an injective hash with fixed-length output gives for `nodeHash`: on arguments of the
    same shape (same children present) equal hashes mean equal key and equal child hashes -/
def NhInj : Prop :=
  ∀ k k' (l l' r r' : Option η), l.isSome = l'.isSome → r.isSome = r'.isSome →
    nh k l r = nh k' l' r' → k = k' ∧ l = l' ∧ r = r'

theorem validFrom_iff (t : List (Node η)) : ∀ (rest : List (Node η)) (i : Nat),
    (validFrom nh t i rest = true ↔ ∀ j n, rest[j]? = some n → nodeOK nh t (i + j) n = true) := by
  intro rest
  induction rest with
  | nil => intro i; simp [validFrom]
  | cons x xs ih =>
    intro i
    simp only [validFrom, Bool.and_eq_true, ih (i + 1)]
    constructor
    · rintro ⟨h0, hr⟩ j n hj
      cases j with
      | zero => simp at hj; subst hj; simpa using h0
      | succ j => simp at hj; have := hr j n hj; rwa [show i + 1 + j = i + (j + 1) by omega] at this
    · intro h
      refine ⟨by simpa using h 0 x (by simp), ?_⟩
      intro j n hj
      have := h (j + 1) n (by simpa using hj)
      rwa [show i + (j + 1) = i + 1 + j by omega] at this

/-- ✦ a tree validates exactly when every node has a non-empty key and its hash is the node
    hash of its key and its actual children (`2i+1`, `2i+2`). -/
theorem isValid_iff (t : List (Node η)) :
    isValid nh t = true ↔ ∀ i n, t[i]? = some n →
      n.key ≠ [] ∧ n.hash = nh n.key (childHash t (2 * i + 1)) (childHash t (2 * i + 2)) := by
  unfold isValid
  rw [validFrom_iff]
  constructor
  · intro h i n hi
    have := h i n hi
    simp only [Nat.zero_add, nodeOK, Bool.and_eq_true, Bool.not_eq_true', decide_eq_false_iff_not,
      decide_eq_true_eq] at this
    exact this
  · intro h i n hi
    have := h i n hi
    simp only [Nat.zero_add, nodeOK, Bool.and_eq_true, Bool.not_eq_true', decide_eq_false_iff_not,
      decide_eq_true_eq]
    exact this

theorem childHash_modify_ne (t : List (Node η)) (i j : Nat) (f : Node η → Node η) (h : j ≠ i) :
    childHash (t.modify i f) j = childHash t j := by
  unfold childHash
  rw [List.getElem?_modify]
  simp [Ne.symm h]

/-- ✦ changing any node's hash in a valid tree makes validation fail. -/
theorem tree_hash_mutation_detected (t : List (Node η)) (hv : isValid nh t = true)
    (i : Nat) (n : Node η) (hi : t[i]? = some n) (h' : η) (hne : h' ≠ n.hash) :
    isValid nh (t.modify i (fun x => { x with hash := h' })) = false := by
  cases hm : isValid nh (t.modify i (fun x => { x with hash := h' })) with
  | false => rfl
  | true =>
    exfalso
    have hold := ((isValid_iff nh t).mp hv i n hi).2
    have hnew := ((isValid_iff nh _).mp hm i { n with hash := h' } (by
      rw [List.getElem?_modify]; simp [hi])).2
    simp only at hnew
    rw [childHash_modify_ne _ _ _ _ (by omega), childHash_modify_ne _ _ _ _ (by omega)] at hnew
    exact hne (hnew.trans hold.symm)

/-- ✦ changing any node's key in a valid tree makes validation fail (ideal hash). -/
theorem tree_key_mutation_detected (hinj : NhInj nh) (t : List (Node η)) (hv : isValid nh t = true)
    (i : Nat) (n : Node η) (hi : t[i]? = some n) (k' : Bytes) (hne : k' ≠ n.key) :
    isValid nh (t.modify i (fun x => { x with key := k' })) = false := by
  cases hm : isValid nh (t.modify i (fun x => { x with key := k' })) with
  | false => rfl
  | true =>
    exfalso
    have hold := ((isValid_iff nh t).mp hv i n hi).2
    have hnew := ((isValid_iff nh _).mp hm i { n with key := k' } (by
      rw [List.getElem?_modify]; simp [hi])).2
    simp only at hnew
    rw [childHash_modify_ne _ _ _ _ (by omega), childHash_modify_ne _ _ _ _ (by omega)] at hnew
    have := hinj _ _ _ _ _ _ rfl rfl (hold.symm.trans hnew)
    exact hne this.1.symm

/-- ✦ the root binds every key: two valid trees of the same size with the same root hash have
    the same key (and hash) at every node — so the root changes whenever any node's key changes. -/
theorem root_binds_keys (hinj : NhInj nh) (t t' : List (Node η))
    (hv : isValid nh t = true) (hv' : isValid nh t' = true) (hlen : t.length = t'.length)
    (hroot : childHash t 0 = childHash t' 0) :
    ∀ (j : Nat) (n n' : Node η), t[j]? = some n → t'[j]? = some n' → n.key = n'.key ∧ n.hash = n'.hash := by
  have hshape : ∀ k, (childHash t k).isSome = (childHash t' k).isSome := by
    intro k
    unfold childHash
    by_cases hk : k < t.length
    · simp [List.getElem?_eq_getElem hk, List.getElem?_eq_getElem (hlen ▸ hk)]
    · simp [List.getElem?_eq_none (by omega : t.length ≤ k), List.getElem?_eq_none (by omega : t'.length ≤ k)]
  -- first: hashes agree everywhere (strong induction on the index, going through the parent)
  have hhash : ∀ j, childHash t j = childHash t' j := by
    intro j
    induction j using Nat.strongRecOn with
    | _ j ih =>
      cases j with
      | zero => exact hroot
      | succ m =>
        -- parent p = m / 2 ; m+1 = 2p+1 or 2p+2
        have hp := ih (m / 2) (by omega)
        by_cases hin : m / 2 < t.length
        · obtain ⟨np, hnp⟩ : ∃ np, t[m / 2]? = some np := ⟨t[m / 2], List.getElem?_eq_getElem hin⟩
          obtain ⟨np', hnp'⟩ : ∃ np', t'[m / 2]? = some np' := ⟨t'[m / 2], List.getElem?_eq_getElem (hlen ▸ hin)⟩
          have e1 := ((isValid_iff nh t).mp hv _ np hnp).2
          have e2 := ((isValid_iff nh t').mp hv' _ np' hnp').2
          have hh : np.hash = np'.hash := by
            have := hp; unfold childHash at this; simp [hnp, hnp'] at this; exact this
          have := hinj _ _ _ _ _ _ (hshape _) (hshape _) (e1.symm.trans (hh.trans e2))
          rcases Nat.mod_two_eq_zero_or_one m with hm | hm
          · have : m + 1 = 2 * (m / 2) + 1 := by omega
            rw [this]; exact ‹_ ∧ _ ∧ _›.2.1
          · have : m + 1 = 2 * (m / 2) + 2 := by omega
            rw [this]; exact ‹_ ∧ _ ∧ _›.2.2
        · -- parent outside the tree: so is the child
          unfold childHash
          rw [List.getElem?_eq_none (by omega : t.length ≤ m + 1), List.getElem?_eq_none (by omega : t'.length ≤ m + 1)]
  intro j n n' hj hj'
  have hh : n.hash = n'.hash := by
    have := hhash j; unfold childHash at this; simp [hj, hj'] at this; exact this
  have e1 := ((isValid_iff nh t).mp hv j n hj).2
  have e2 := ((isValid_iff nh t').mp hv' j n' hj').2
  exact ⟨(hinj _ _ _ _ _ _ (hshape _) (hshape _) (e1.symm.trans (hh.trans e2))).1, hh⟩

end

/-- why `NhInj` is the right abstraction: with an injective hash over bytes, the preimage
    `key ‖ leftHash ‖ rightHash` determines its three parts as soon as the child hashes have the
    same lengths on both sides (fixed-length hash output; an absent child contributes nothing). -/
theorem flat_hash_unambiguous (H : Bytes → Bytes) (hH : Function.Injective H)
    (k k' l l' r r' : Bytes) (hl : l.length = l'.length) (hr : r.length = r'.length)
    (h : H (k ++ l ++ r) = H (k' ++ l' ++ r')) : k = k' ∧ l = l' ∧ r = r' := by
  have h0 := hH h
  have hlen := congrArg List.length h0
  simp only [List.length_append] at hlen
  have h1 := List.append_inj h0 (by simp only [List.length_append]; omega)
  have h2 := List.append_inj h1.1 (by omega)
  exact ⟨h2.1, h2.2, h1.2⟩

/-- the symbolic hash of the driver satisfies `NhInj` -/
theorem snh_inj : NhInj snh := by
  intro k k' l l' r r' hl hr h
  cases l <;> cases l' <;> cases r <;> cases r' <;> simp_all [snh]

/-- ✗ known finding C12:proof-nonpath-key-not-bound — in the proof of `k3` of a 7-node tree,
    renaming the sibling entry `k4` (only its hash enters any node hash) still proves. -/
def siblingWitness : Bool :=
  let keys : List Bytes := [[0], [1], [2], [3], [4], [5], [6]]
  let t := generate snh keys
  isValid snh t &&
  (match extract t [3] with
   | some p =>
     prove snh p [3] &&
     prove snh (p.modify 3 (fun e => e.map (fun n => { n with key := [99] }))) [3]
   | none => false)

theorem proof_sibling_key_witness : siblingWitness = true := by decide

/-- ✦ facts of the current source: the byte layout of `nodeHash`; pins. -/
theorem facts_ok :
    Gen.C12.extractErrors = [] ∧ Gen.C12.nodeHashConcat = "util.ConcatBytesSlice(key, lh, rh)" ∧
    Gen.C12.pins = Pins.C12 := by
  refine ⟨by decide, by decide, by decide⟩

end Mitum.C12
