import MitumModel.Common
/-
Model of `BaseProposalSelector.getNodes` (sort by address string) and
`BlockBasedProposerSelector.Select` (isaac/proposal_selector.go,
isaac/proposer_selector.go).  Nodes are represented by their address strings;
`prev` is the byte list of the previous block hash.
-/
namespace Mitum.Selector

def strLe (a b : String) : Bool := decide (a ≤ b)

/-- `sum` in uint64: byte sum of the previous block + height + round -/
def seed (prev : List Nat) (h r : Nat) : Nat := (prev.sum + h + r) % 2 ^ 64

/-- `getNodes` followed by `BlockBasedProposerSelector.Select` -/
def select (prev : List Nat) (h r : Nat) (nodes : List String) : Option String :=
  match nodes with
  | [] => none
  | [n] => some n
  | _ =>
    let sorted := sortBy strLe nodes
    sorted[seed prev h r % sorted.length]?

end Mitum.Selector
