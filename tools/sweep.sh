#!/bin/bash
# unchanged-tree sweep: every claimed check over several seeds; evidence goes to a scratch dir
cd /verif
tier=${1:-quick}; shift
seeds=${@:-1 2 3 4 5}
ids=$(python3 -c "import json;print(' '.join(c['property_id'] for c in json.load(open('MANIFEST.json'))['checks']))")
for s in $seeds; do for id in $ids; do
  out=$(VERIF_SEED=$s VERIF_EVIDENCE_DIR=/verif/work/sweep-evidence ./check $id --tier $tier 2>&1 | grep -v conda | grep -v "^KNOWN")
  if echo "$out" | grep -q "^VIOLATION"; then echo "seed=$s $out" | head -3; fi
done; done
echo "sweep done: tier=$tier seeds=$seeds"
