package main

import (
	"go/ast"
	"strings"
)

func init() { register("C12", genC12) }

func genC12(o *Out) {
	f := o.pinFile("util/fixedtree/tree.go", "NewTree", "Tree.IsValid", "Tree.Traverse", "Tree.Set", "Tree.Proof", "Tree.Root",
		"childrenNodes", "indexHeight", "children", "parent", "nodeHash")
	o.pinFile("util/fixedtree/proof.go", "NewProofFromNodes", "Proof.IsValid", "Proof.Prove", "Proof.filterNodes", "ExtractProofMaterial")
	o.pinFile("util/fixedtree/writer.go", "Writer.Add", "Writer.Tree", "Writer.shrinkNodes", "generateNodeHash", "generateNodesHash")
	o.pinFile("util/fixedtree/node.go", "BaseNode.Hash", "BaseNode.SetHash", "BaseNode.IsValid", "BaseNode.IsEmpty", "EmptyBaseNode", "BaseNode.UnmarshalJSON", "BaseNode.MarshalJSON")
	o.pinFile("util/fixedtree/proof_json.go", "Proof.MarshalJSON", "Proof.UnmarshalJSON")
	if f == nil {
		return
	}
	concat := ""
	if fd := f.Func("", "nodeHash"); fd != nil {
		ast.Inspect(fd.Body, func(n ast.Node) bool {
			ce, ok := n.(*ast.CallExpr)
			if ok && strings.Contains(f.Src(ce.Fun), "ConcatBytesSlice") {
				concat = normSpace(f.Src(ce))
			}
			return true
		})
	}
	o.str("nodeHashConcat", concat)
}
