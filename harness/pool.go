package main

import (
	"context"
	"fmt"
	"github.com/spikeekips/mitum/util/valuehash"
	"sort"
	"strings"
	"time"

	"github.com/spikeekips/mitum/base"
	"github.com/spikeekips/mitum/isaac"
	isaacdatabase "github.com/spikeekips/mitum/isaac/database"
	"github.com/spikeekips/mitum/launch"
	leveldbstorage "github.com/spikeekips/mitum/storage/leveldb"
	"github.com/spikeekips/mitum/util"
	"github.com/spikeekips/mitum/util/encoder"
	jsonenc "github.com/spikeekips/mitum/util/encoder/json"
)

// shared environment for the pool properties (C22, C23, C24, C38)
type poolEnv struct {
	encs *encoder.Encoders
	enc  *jsonenc.Encoder
}

func newPoolEnv() (*poolEnv, error) {
	enc := jsonenc.NewEncoder()
	encs := encoder.NewEncoders(enc, enc)
	if err := launch.LoadHinters(encs); err != nil {
		return nil, err
	}
	for _, d := range []encoder.DecodeDetail{
		{Hint: isaac.DummyOperationFactHint, Instance: isaac.DummyOperationFact{}},
		{Hint: isaac.DummyOperationHint, Instance: isaac.DummyOperation{}},
		{Hint: base.DummyNodeHint, Instance: base.BaseNode{}},
	} {
		if err := encs.AddDetail(d); err != nil {
			return nil, err
		}
	}
	return &poolEnv{encs: encs, enc: enc}, nil
}

func (e *poolEnv) newPool() (*isaacdatabase.TempPool, error) {
	return isaacdatabase.NewTempPool(leveldbstorage.NewMemStorage(), e.encs, e.enc, 0)
}

func init() {
	register("C22", runC22)
	register("C23", runC23)
}

// ---------------------------------------------------------------- C22

func runC22(c *Ctx) error {
	env, err := newPoolEnv()
	if err != nil {
		return err
	}
	networkID := base.NetworkID("c22")
	privs := []base.Privatekey{base.NewMPrivatekey(), base.NewMPrivatekey(), base.NewMPrivatekey()}
	nhist := 400
	if c.Thorough() {
		nhist = 12000
	}
	ctx := context.Background()
	for hi := 0; hi < nhist; hi++ {
		pool, err := env.newPool()
		if err != nil {
			return err
		}
		nfacts := 1 + c.Intn(5)
		// every fiftieth history starts with 360 operations of three facts and three calls: the first call removes more
		// than 333 entries at once (the older operations of each fact), the next two refuse operations by their own
		// hash, so that whatever an earlier call should have removed would be next in line
		var forced []string
		if hi%50 == 7 {
			nfacts = 3
			for j := 0; j < 360; j++ {
				forced = append(forced, "S")
			}
			forced = append(forced, "H:6:0:0:f", "H:6:2:0:o", "H:6:2:1:o", "H:6:3:1:f")
			c.Count("histories", "with-360-operations-prefix")
		}
		facts := make([]isaac.DummyOperationFact, nfacts)
		for i := range facts {
			facts[i] = isaac.NewDummyOperationFact(util.UUID().Bytes(), util.BytesToByter(c.Bytes(4)))
		}
		type opinfo struct {
			op   isaac.DummyOperation
			id   int
			fact int
		}
		var ops []opinfo
		idOf := map[string]int{}
		factOf := map[string]int{}
		for i := range facts {
			factOf[facts[i].Hash().String()] = i + 1
		}
		var toks, outs []string
		var pending []opinfo
		storedIDs := map[int]bool{}
		nsteps := 3 + c.Intn(14) + len(forced)
		handedOut := map[int]bool{} // ops removed as filtered out / replaced duplicates
		for st := 0; st < nsteps; st++ {
			k := c.Intn(10)
			var force string
			if len(forced) > 0 {
				force, forced = forced[0], forced[1:]
				k = 0
				if force != "S" {
					k = 9
				}
			}
			switch {
			case k < 6 || len(ops) == 0: // SetOperation (new op, often an already used fact re-signed)
				fi := c.Intn(nfacts)
				var oi opinfo
				if force == "" && len(ops) > 0 && c.Chance(1, 6) { // resubmit an existing operation
					oi = ops[c.Intn(len(ops))]
				} else if force == "" && len(pending) > 0 && c.Chance(1, 2) {
					// an operation that was signed a while ago arrives only now (after others signed later)
					oi = pending[0]
					pending = pending[1:]
				} else {
					op, err := isaac.NewDummyOperation(facts[fi], privs[c.Intn(len(privs))], networkID)
					if err != nil {
						return err
					}
					oi = opinfo{op: op, id: len(ops) + 1, fact: fi + 1}
					ops = append(ops, oi)
					idOf[op.Hash().String()] = oi.id
					if force == "" && c.Chance(1, 5) {
						// signed now, delivered later: another operation (often of the same fact) is signed and added first
						pending = append(pending, oi)
						time.Sleep(2 * time.Millisecond)
						op2, err := isaac.NewDummyOperation(facts[fi], privs[c.Intn(len(privs))], networkID)
						if err != nil {
							return err
						}
						oi = opinfo{op: op2, id: len(ops) + 1, fact: fi + 1}
						ops = append(ops, oi)
						idOf[op2.Hash().String()] = oi.id
					}
				}
				ok, err := pool.SetOperation(ctx, oi.op)
				if err != nil {
					return err
				}
				storedIDs[oi.id] = true
				toks = append(toks, fmt.Sprintf("s:%d:%d", oi.id, oi.fact))
				outs = append(outs, b01(ok))
			default: // OperationHashes
				limit := uint64(1 + c.Intn(6))
				m, r := 0, 0
				if c.Chance(1, 2) {
					m = 2 + c.Intn(2)
					r = c.Intn(m)
				}
				var filter func(isaac.PoolOperationRecordMeta) (bool, error)
				byOp := m > 0 && c.Chance(1, 3) // a filter that decides per operation (as the proposal maker's known-operation check does), not per fact
				if force != "" {
					var l uint64
					var kind string
					fmt.Sscanf(strings.ReplaceAll(force, ":", " "), "H %d %d %d %s", &l, &m, &r, &kind)
					limit, byOp = l, kind == "o"
				}
				if m > 0 {
					filter = func(meta isaac.PoolOperationRecordMeta) (bool, error) {
						if byOp {
							return idOf[meta.Operation().String()]%m != r, nil
						}
						return factOf[meta.Fact().String()]%m != r, nil
					}
				}
				htok := fmt.Sprintf("h:%d:%d:%d", limit, m, r)
				if byOp {
					htok += ":o"
				}
				var res [][2]util.Hash
				var herr error
				if p := c29safe(func() { res, herr = pool.OperationHashes(ctx, base.Height(33), limit, filter) }); p != "" {
					c.Violation("C22:panic", "OperationHashes panicked: "+p, map[string]interface{}{"history": append(toks, htok)})
					toks = append(toks, htok)
					outs = append(outs, "panic")
					st = nsteps
					continue
				}
				if herr != nil {
					return herr
				}
				var ids []string
				seenF := map[int]bool{}
				seenO := map[int]bool{}
				hist := append(append([]string{}, toks...), htok)
				for _, e := range res {
					id := idOf[e[0].String()]
					f := factOf[e[1].String()]
					ids = append(ids, fmt.Sprint(id))
					in := map[string]interface{}{"history": hist, "result": ids}
					if seenF[f] {
						c.Violation("C22:duplicate-fact", fmt.Sprintf("history %s returns two operations of fact %d", strings.Join(hist, " "), f), in)
					}
					if seenO[id] {
						c.Violation("C22:duplicate-operation", fmt.Sprintf("history %s returns operation %d twice", strings.Join(hist, " "), id), in)
					}
					seenF[f], seenO[id] = true, true
					if m > 0 && ((!byOp && f%m == r) || (byOp && id%m == r)) {
						c.Violation("C22:filtered-returned", fmt.Sprintf("history %s returns filtered-out operation %d", strings.Join(hist, " "), id), in)
					}
					if handedOut[id] {
						c.Violation("C22:removed-returned-again", fmt.Sprintf("history %s returns operation %d that an earlier call removed", strings.Join(hist, " "), id), in)
					}
					if id == 0 || ops[id-1].fact != f {
						c.Violation("C22:not-stored", fmt.Sprintf("history %s returns an entry that was never stored", strings.Join(hist, " ")), in)
					}
				}
				if uint64(len(res)) > limit {
					c.Violation("C22:over-limit", strings.Join(hist, " "), map[string]interface{}{"history": hist})
				}
				toks = hist
				outs = append(outs, "["+strings.Join(ids, ",")+"]")
				// bookkeeping for "removed not returned again": filtered-out ops seen by this call are gone.
				// (which ones were scanned depends on the limit; the model says exactly which — the
				// oracle here only tracks the certain ones: filtered-out ops when the result is short)
				if m > 0 && !byOp && uint64(len(res)) < limit {
					for _, oi := range ops {
						if storedIDs[oi.id] && oi.fact%m == r {
							handedOut[oi.id] = true
						}
					}
				}
			}
		}
		_ = pool.Close()
		c.Case("seq "+strings.Join(toks, " "), strings.Join(outs, " "))
		nh, dup := 0, false
		seen := map[string]bool{}
		for _, t := range toks {
			if strings.HasPrefix(t, "h:") {
				nh++
			}
			if strings.HasPrefix(t, "s:") {
				f := t[strings.LastIndex(t, ":"):]
				if seen[f] {
					dup = true
				}
				seen[f] = true
			}
		}
		if nh >= 1 && dup {
			c.Nontrivial(strings.Join(toks, " "))
		}
		c.Count("hashes-calls-per-history", fmt.Sprint(nh))
		if hi%100 == 0 {
			c.Sample(map[string]string{"history": strings.Join(toks, " "), "results": strings.Join(outs, " ")})
		}
	}
	return nil
}

// ---------------------------------------------------------------- C23

func runC23(c *Ctx) error {
	env, err := newPoolEnv()
	if err != nil {
		return err
	}
	networkID := base.NetworkID("c23")
	nodes := []base.LocalNode{base.RandomLocalNode(), base.RandomLocalNode(), base.RandomLocalNode()}
	signer := base.RandomLocalNode()
	nhist := 300
	if c.Thorough() {
		nhist = 10000
	}
	type rng struct {
		node, start, end int
		hash             uint64
		op               base.SuffrageExpelOperation
	}
	for hi := 0; hi < nhist; hi++ {
		pool, err := env.newPool()
		if err != nil {
			return err
		}
		var toks, outs []string
		store := map[string]rng{} // key end/hash
		nsteps := 4 + c.Intn(14)
		maxh := 12
		for st := 0; st < nsteps; st++ {
			switch k := c.Intn(10); {
			case k < 5 || len(store) == 0:
				ni := c.Intn(len(nodes))
				s := c.Intn(maxh)
				e := s + c.Intn(maxh-s+1)
				fact := isaac.NewSuffrageExpelFact(nodes[ni].Address(), base.Height(s), base.Height(e), "c23")
				op := isaac.NewSuffrageExpelOperation(fact)
				if err := op.NodeSign(signer.Privatekey(), networkID, signer.Address()); err != nil {
					return err
				}
				if err := pool.SetSuffrageExpelOperation(op); err != nil {
					return err
				}
				hb := fact.Hash().Bytes()
				var hv uint64
				for i := 0; i < 7; i++ {
					hv = hv<<8 | uint64(hb[i])
				}
				store[fmt.Sprintf("%d/%d", e, hv)] = rng{ni + 1, s, e, hv, op}
				toks = append(toks, fmt.Sprintf("p:%d:%d:%d:%d", ni+1, s, e, hv))
				outs = append(outs, "ok")
			case k < 7: // traverse
				h := c.Intn(maxh + 2)
				var visited []string
				vset := map[string]bool{}
				if err := pool.TraverseSuffrageExpelOperations(context.Background(), base.Height(h), func(op base.SuffrageExpelOperation) (bool, error) {
					f := op.ExpelFact()
					ni := 0
					for i := range nodes {
						if nodes[i].Address().Equal(f.Node()) {
							ni = i + 1
						}
					}
					id := fmt.Sprintf("%d.%d.%d", ni, f.ExpelStart(), f.ExpelEnd())
					visited = append(visited, id)
					vset[id] = true
					return true, nil
				}); err != nil {
					return err
				}
				toks = append(toks, fmt.Sprintf("t:%d", h))
				outs = append(outs, "["+strings.Join(visited, ",")+"]")
				// oracle: exactly the covering ranges
				var want []string
				for _, r := range store {
					if r.start <= h && h <= r.end {
						want = append(want, fmt.Sprintf("%d.%d.%d", r.node, r.start, r.end))
					}
				}
				got := append([]string{}, visited...)
				sort.Strings(want)
				sort.Strings(got)
				if strings.Join(want, ",") != strings.Join(got, ",") {
					c.Violation("C23:traverse-wrong-set", fmt.Sprintf("history %s: at height %d visited %v, covering %v", strings.Join(toks, " "), h, got, want),
						map[string]interface{}{"history": toks})
				}
			case k < 9: // lookup by node
				h := c.Intn(maxh + 2)
				ni := c.Intn(len(nodes))
				op, found, err := pool.SuffrageExpelOperation(base.Height(h), nodes[ni].Address())
				if err != nil {
					return err
				}
				toks = append(toks, fmt.Sprintf("l:%d:%d", h, ni+1))
				res := "none"
				if found {
					f := op.ExpelFact()
					res = fmt.Sprintf("%d.%d.%d", ni+1, f.ExpelStart(), f.ExpelEnd())
					if !(int(f.ExpelStart()) <= h && h <= int(f.ExpelEnd())) || !f.Node().Equal(nodes[ni].Address()) {
						c.Violation("C23:lookup-wrong-operation", fmt.Sprintf("history %s: lookup(%d,node %d) returned %s", strings.Join(toks, " "), h, ni+1, res), map[string]interface{}{"history": toks})
					}
				}
				exists := false
				for _, r := range store {
					if r.node == ni+1 && r.start <= h && h <= r.end {
						exists = true
					}
				}
				if exists != found {
					c.Violation("C23:lookup-missed", fmt.Sprintf("history %s: lookup(%d,node %d) found=%v but covering operation exists=%v", strings.Join(toks, " "), h, ni+1, found, exists),
						map[string]interface{}{"history": toks})
				}
				outs = append(outs, res)
			default: // remove by height
				h := c.Intn(maxh)
				if err := pool.RemoveSuffrageExpelOperationsByHeight(base.Height(h)); err != nil {
					return err
				}
				for k, r := range store {
					if r.end <= h {
						delete(store, k)
					}
				}
				toks = append(toks, fmt.Sprintf("r:%d", h))
				outs = append(outs, "ok")
			}
		}
		_ = pool.Close()
		c.Case("seq "+strings.Join(toks, " "), strings.Join(outs, " "))
		if len(store) >= 2 {
			c.Nontrivial(strings.Join(toks, " "))
		}
		c.Count("stored-at-end", fmt.Sprint(len(store)))
		if hi%100 == 0 {
			c.Sample(map[string]string{"history": strings.Join(toks, " "), "results": strings.Join(outs, " ")})
		}
	}
	return nil
}

// ---------------------------------------------------------------- C24

// gateBallot wraps a real ballot; its MarshalJSON (called by SetBallot between Exists and Put)
// waits until `want` marshals are in flight or the timeout passes.
type c24gate struct {
	ch      chan struct{}
	arrived chan struct{}
}

type gateBallot struct {
	base.Ballot
	g *c24gate
}

func (b gateBallot) MarshalJSON() ([]byte, error) {
	b.g.arrived <- struct{}{}
	<-b.g.ch
	return util.MarshalJSON(b.Ballot)
}

type gateProposal struct {
	base.ProposalSignFact
	g *c24gate
}

func (p gateProposal) MarshalJSON() ([]byte, error) {
	p.g.arrived <- struct{}{}
	<-p.g.ch
	return util.MarshalJSON(p.ProposalSignFact)
}

func init() { register("C24", runC24) }

func runC24(c *Ctx) error {
	env, err := newPoolEnv()
	if err != nil {
		return err
	}
	nodes := []base.LocalNode{base.RandomLocalNode(), base.RandomLocalNode(), base.RandomLocalNode()}
	prevs := []util.Hash{valuehash.RandomSHA256(), valuehash.RandomSHA256()}
	nhist := 150
	if c.Thorough() {
		nhist = 4000
	}
	for hi := 0; hi < nhist; hi++ {
		pool, err := env.newPool()
		if err != nil {
			return err
		}
		dP, dB := pool.VerifCleanDeeps()
		ballotID := map[string]int{} // node+facthash -> id
		propID := map[string]int{}   // signature -> id
		factID := map[string]int{}
		var facts []isaac.ProposalFact
		nextB, nextP := 1, 1
		var toks, outs []string
		nsteps := 4 + c.Intn(16)
		baseH := 10 + c.Intn(3)
		nearGenesis := c.Chance(1, 4) // whole history at heights 0..4: around the cleanup guard
		// every eighth history starts with the cleanup guard's edge: entries at the genesis height, the newest entry at
		// height 1 or 2, both cleanups, then the genesis entries are looked up (and set again)
		type c24forced struct{ k, h int }
		var forced []c24forced
		if hi%8 == 0 {
			top := 1 + c.Intn(2)
			forced = []c24forced{{0, 0}, {10, 0}, {0, top}, {10, top}, {18, 0}, {19, 0}, {6, 0}, {14, 0}, {16, 0}, {0, 0}, {10, 0}}
			nearGenesis = true
			nsteps += len(forced)
		}
		for st := 0; st < nsteps; st++ {
			h := baseH + c.Intn(7)
			if c.Chance(1, 10) {
				h = 1 + c.Intn(3) // very low heights: below the cleanup guard
			}
			r := c.Intn(2)
			if nearGenesis {
				h = c.Intn(5)
				if st < 3 {
					h = c.Intn(3)
				}
			}
			if h == 0 {
				r = 0 // the genesis point has round 0 only
			}
			k := c.Intn(20)
			if len(forced) > 0 {
				k, h, r = forced[0].k, forced[0].h, 0
				forced = forced[1:]
			}
			point := base.NewPoint(base.Height(h), base.Round(uint64(r)))
			switch {
			case k < 6: // SetBallot
				acc := c.Bool()
				signer := nodes[c.Intn(len(nodes))]
				var bl base.Ballot
				sc := false
				if acc {
					b, err := hACCEPTBallot(point, signer, nodes[:1], valuehash.RandomSHA256(), valuehash.RandomSHA256())
					if err != nil {
						return err
					}
					bl = b
				} else {
					b, err := hINITBallot(point, signer, nodes[:1], prevs[c.Intn(2)], valuehash.RandomSHA256())
					if err != nil {
						return err
					}
					bl = b
					// the INIT ballots of an expel flow: an ordinary INIT ballot whose fact carries expel facts, and the
					// suffrage-confirm ballot that follows it; the two live under different keys of one stage point
					if kind := c.Intn(4); kind >= 2 {
						efacts := []util.Hash{valuehash.RandomSHA256()}
						var fact base.INITBallotFact = isaac.NewINITBallotFact(point, prevs[c.Intn(2)], valuehash.RandomSHA256(), efacts)
						if kind == 3 {
							fact = isaac.NewSuffrageConfirmBallotFact(point, prevs[c.Intn(2)], valuehash.RandomSHA256(), efacts)
							sc = true
						}
						sf := isaac.NewINITBallotSignFact(fact)
						if err := sf.NodeSign(signer.Privatekey(), hNetworkID, signer.Address()); err != nil {
							return err
						}
						bl = isaac.NewINITBallot(b.Voteproof(), sf, nil)
					}
				}
				id := nextB
				nextB++
				ballotID[bl.SignFact().Node().String()+bl.SignFact().Fact().Hash().String()] = id
				ok, err := pool.SetBallot(bl)
				if err != nil {
					return err
				}
				toks = append(toks, fmt.Sprintf("sb:%d.%d.%s.%s:%d", h, r, b01(acc), b01(sc), id))
				outs = append(outs, b01(ok))
			case k < 10: // Ballot lookup
				acc := c.Bool()
				stage := base.StageINIT
				if acc {
					stage = base.StageACCEPT
				}
				wantSC := !acc && c.Chance(1, 3)
				bl, found, err := pool.Ballot(point, stage, wantSC)
				if err != nil {
					return err
				}
				res := "none"
				if found {
					res = fmt.Sprint(ballotID[bl.SignFact().Node().String()+bl.SignFact().Fact().Hash().String()])
					if isaac.IsSuffrageConfirmBallotFact(bl.SignFact().Fact()) != wantSC {
						c.Violation("C24:ballot-under-the-wrong-key", fmt.Sprintf("history %s: Ballot(%v, %v, suffrage-confirm=%v) returns a ballot whose fact is suffrage-confirm=%v", strings.Join(toks, " "), point, stage, wantSC, !wantSC),
							map[string]interface{}{"history": toks})
					}
				}
				toks = append(toks, fmt.Sprintf("gb:%d.%d.%s.%s", h, r, b01(acc), b01(wantSC)))
				outs = append(outs, res)
			case k < 14: // SetProposal: new fact, or an existing fact re-signed
				pi := c.Intn(len(nodes))
				pv := c.Intn(2)
				var pr isaac.ProposalSignFact
				var fid int
				if len(facts) > 0 && c.Chance(1, 4) {
					fid = 1 + c.Intn(len(facts))
					f := facts[fid-1]
					for i := range nodes {
						if nodes[i].Address().Equal(f.Proposer()) {
							pi = i
						}
					}
					sf := isaac.NewProposalSignFact(f)
					if err := sf.Sign(nodes[pi].Privatekey(), hNetworkID); err != nil {
						return err
					}
					pr = sf
				} else {
					ppoint := point
					if len(facts) > 0 && c.Chance(1, 3) {
						// another proposal (other operations) for the point, proposer and previous block of an earlier one:
						// a proposer that makes its proposal again
						f := facts[c.Intn(len(facts))]
						ppoint = f.Point()
						for i := range nodes {
							if nodes[i].Address().Equal(f.Proposer()) {
								pi = i
							}
						}
						pv = 0
						if f.PreviousBlock().Equal(prevs[1]) {
							pv = 1
						}
					}
					p, err := hProposal(ppoint, nodes[pi], prevs[pv], [][2]util.Hash{{valuehash.RandomSHA256(), valuehash.RandomSHA256()}})
					if err != nil {
						return err
					}
					pr = p
					facts = append(facts, p.Fact().(isaac.ProposalFact))
					fid = len(facts)
					factID[p.Fact().Hash().String()] = fid
				}
				f := facts[fid-1]
				pvi := 0
				if f.PreviousBlock().Equal(prevs[1]) {
					pvi = 1
				}
				pidx := 0
				for i := range nodes {
					if nodes[i].Address().Equal(f.Proposer()) {
						pidx = i
					}
				}
				// a re-signed proposal made within the same millisecond is byte-identical
				// (deterministic signature over the same signedAt): same object, same id
				id, known := propID[string(pr.Signs()[0].Signature())]
				if !known {
					id = nextP
					nextP++
					propID[string(pr.Signs()[0].Signature())] = id
				}
				ok, err := pool.SetProposal(pr)
				if err != nil {
					return err
				}
				toks = append(toks, fmt.Sprintf("sp:%d:%d.%d.%d.%d:%d", fid, f.Point().Height(), f.Point().Round(), pidx, pvi, id))
				outs = append(outs, b01(ok))
			case k < 16 && len(facts) > 0: // Proposal by hash
				fid := 1 + c.Intn(len(facts))
				pr, found, err := pool.Proposal(facts[fid-1].Hash())
				if err != nil {
					return err
				}
				res := "none"
				if found {
					res = fmt.Sprint(propID[string(pr.Signs()[0].Signature())])
				}
				toks = append(toks, fmt.Sprintf("gp:%d", fid))
				outs = append(outs, res)
			case k < 18: // ProposalByPoint
				pi := c.Intn(len(nodes))
				pv := c.Intn(2)
				pr, found, err := pool.ProposalByPoint(point, nodes[pi].Address(), prevs[pv])
				if err != nil {
					return err
				}
				res := "none"
				if found {
					res = fmt.Sprint(propID[string(pr.Signs()[0].Signature())])
					f := pr.ProposalFact()
					if !f.Point().Equal(point) || !f.Proposer().Equal(nodes[pi].Address()) || !f.PreviousBlock().Equal(prevs[pv]) {
						c.Violation("C24:lookup-by-point-wrong-triple", strings.Join(toks, " "), map[string]interface{}{"history": toks})
					}
				}
				toks = append(toks, fmt.Sprintf("gt:%d.%d.%d.%d", h, r, pi, pv))
				outs = append(outs, res)
			case k == 18:
				if _, err := pool.VerifCleanBallots(); err != nil {
					return err
				}
				toks = append(toks, fmt.Sprintf("cb:%d", dB))
				outs = append(outs, "ok")
			default:
				if _, err := pool.VerifCleanProposals(); err != nil {
					return err
				}
				toks = append(toks, fmt.Sprintf("cp:%d", dP))
				outs = append(outs, "ok")
			}
		}
		_ = pool.Close()
		c.Case("seq "+strings.Join(toks, " "), strings.Join(outs, " "))
		if nextB > 2 && nextP > 2 {
			c.Nontrivial(strings.Join(toks, " "))
		}
		if hi%50 == 0 {
			c.Sample(map[string]string{"history": strings.Join(toks, " "), "results": strings.Join(outs, " ")})
		}
	}
	// forced interleaving: two writers of one key, both held inside MarshalJSON (between Exists and Put)
	rounds := 6
	if c.Thorough() {
		rounds = 60
	}
	for i := 0; i < rounds; i++ {
		pool, err := env.newPool()
		if err != nil {
			return err
		}
		point := base.NewPoint(base.Height(33+i), 0)
		g := &c24gate{ch: make(chan struct{}), arrived: make(chan struct{}, 4)}
		b1, err := hINITBallot(point, nodes[0], nodes[:1], prevs[0], valuehash.RandomSHA256())
		if err != nil {
			return err
		}
		b2, err := hINITBallot(point, nodes[1], nodes[:1], prevs[1], valuehash.RandomSHA256())
		if err != nil {
			return err
		}
		res := make(chan bool, 2)
		for _, b := range []base.Ballot{gateBallot{b1, g}, gateBallot{b2, g}} {
			go func(b base.Ballot) {
				ok, _ := pool.SetBallot(b)
				res <- ok
			}(b)
		}
		// wait until both are inside MarshalJSON, or 150ms (when a lock serialises them only one can be)
		n := 0
		tm := time.After(150 * time.Millisecond)
	wait:
		for n < 2 {
			select {
			case <-g.arrived:
				n++
			case <-tm:
				break wait
			}
		}
		close(g.ch)
		go func() { // drain late arrivals
			for range g.arrived {
			}
		}()
		r1, r2 := <-res, <-res
		c.Eval(1)
		c.Count("gated-setballot", fmt.Sprintf("both-inside-window=%v winners=%d", n == 2, map[bool]int{true: 1}[r1]+map[bool]int{true: 1}[r2]))
		if r1 && r2 {
			c.Violation("C24:setballot-race-two-winners", "two concurrent SetBallot calls for one stage point both returned true (both passed Exists before either Put)",
				map[string]interface{}{"point": point.String(), "forced": "MarshalJSON gate between Exists and Put"})
		}
		// same for proposals of one fact
		g2 := &c24gate{ch: make(chan struct{}), arrived: make(chan struct{}, 4)}
		fact := isaac.NewProposalFact(point, nodes[0].Address(), prevs[0], nil)
		mk := func() isaac.ProposalSignFact {
			sf := isaac.NewProposalSignFact(fact)
			_ = sf.Sign(nodes[0].Privatekey(), hNetworkID)
			return sf
		}
		res2 := make(chan bool, 2)
		for _, p := range []base.ProposalSignFact{gateProposal{mk(), g2}, gateProposal{mk(), g2}} {
			go func(p base.ProposalSignFact) {
				ok, _ := pool.SetProposal(p)
				res2 <- ok
			}(p)
		}
		n = 0
		tm = time.After(150 * time.Millisecond)
	wait2:
		for n < 2 {
			select {
			case <-g2.arrived:
				n++
			case <-tm:
				break wait2
			}
		}
		close(g2.ch)
		go func() {
			for range g2.arrived {
			}
		}()
		p1, p2 := <-res2, <-res2
		c.Eval(1)
		if p1 && p2 {
			c.Violation("C24:setproposal-race-two-winners", "two concurrent SetProposal calls for one fact both returned true",
				map[string]interface{}{"point": point.String(), "forced": "MarshalJSON gate between Exists and Batch"})
		}
		_ = pool.Close()
	}
	return nil
}
