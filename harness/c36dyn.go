package main

import (
	"context"
	"fmt"
	"net"
	"strings"
	"time"

	"github.com/spikeekips/mitum/base"
	"github.com/spikeekips/mitum/launch"
	"github.com/spikeekips/mitum/util"
	"github.com/spikeekips/mitum/util/valuehash"
)

// Histories in which the rule sets and the consensus membership change while limiters are cached.
// A rule is a kind: a positive burst (over an hour: never exhausted here), -1 = no limit, -2 = everything blocked.
// Oracle only (the Lean model has no rule-set replacement): at every request the limiter must be the one the
// documented precedence selects from the rule sets and membership as they are NOW, and the request must be let
// through or refused as that rule says.  Requests whose hint (client id, node) differs from the address's
// previous request fall under the known finding about cached limiters and are classified as such.

func c36kindRule(k int) launch.RateLimiterRule {
	switch k {
	case -1:
		return launch.NoLimitRateLimiterRule()
	case -2:
		return launch.LimitRateLimiterRule()
	}
	return launch.NewRateLimiterRule(time.Hour, k)
}

func c36kindMap(k int) launch.RateLimiterRuleMap {
	r := c36kindRule(k)
	return launch.NewRateLimiterRuleMap(&r, nil)
}

func c36kindOf(limiter string) int {
	switch limiter {
	case "nolimit":
		return -1
	case "0":
		return -2
	}
	var b int
	fmt.Sscanf(limiter, "%d/", &b)
	return b
}

func c36dynamic(c *Ctx) error {
	n := 150
	if c.Thorough() {
		n = 4000
	}
	nodes := []base.Address{base.RandomAddress("n0-"), base.RandomAddress("n1-")}
	addrs := []*net.UDPAddr{{IP: net.ParseIP("192.168.0.1"), Port: 4}, {IP: net.ParseIP("192.168.0.2"), Port: 5}}
	pickKind := func(base int) int {
		switch c.Intn(5) {
		case 0:
			return -1
		case 1:
			return -2
		}
		return base + c.Intn(50)
	}
	for hi := 0; hi < n; hi++ {
		rules := launch.NewRateLimiterRules()
		// current rule sets, as kinds
		clientKinds := map[string]int{} // client id -> kind
		hasClient := false
		nodeKinds := map[int]int{}
		hasNodes := false
		sufKind, defKind := pickKind(4000), pickKind(5000)
		members := map[int]bool{0: c.Bool(), 1: c.Bool()}
		statehash := util.Hash(valuehash.RandomSHA256())
		rules.SetIsInConsensusNodesFunc(func() (util.Hash, func(base.Address) bool, error) {
			return statehash, func(a base.Address) bool {
				for i := range nodes {
					if nodes[i].Equal(a) {
						return members[i]
					}
				}
				return false
			}, nil
		})
		_ = rules.SetSuffrageRuleSet(launch.NewSuffrageRateLimiterRuleSet(c36kindMap(sufKind)))
		_ = rules.SetDefaultRuleMap(c36kindMap(defKind))
		setClient := func() {
			m := map[string]launch.RateLimiterRuleMap{}
			for id, k := range clientKinds {
				m[id] = c36kindMap(k)
			}
			_ = rules.SetClientIDRuleSet(launch.NewClientIDRateLimiterRuleSet(m))
			hasClient = true
		}
		setNodes := func() {
			m := map[string]launch.RateLimiterRuleMap{}
			for i, k := range nodeKinds {
				m[nodes[i].String()] = c36kindMap(k)
			}
			_ = rules.SetNodeRuleSet(launch.NewNodeRateLimiterRuleSet(m))
			hasNodes = true
		}
		if c.Bool() {
			clientKinds["c1"] = pickKind(1000)
			setClient()
		}
		if c.Bool() {
			nodeKinds[c.Intn(2)] = pickKind(3000)
			setNodes()
		}
		args := launch.NewRateLimitHandlerArgs()
		args.Rules = rules
		h, err := launch.NewRateLimitHandler(args)
		if err != nil {
			return err
		}
		nodeOf := map[int]int{}
		lastHint := map[int]string{}
		hintsSeen := map[int]int{}
		var toks []string
		selectNow := func(ai int, cid string) (string, int) {
			if cid != "" && hasClient {
				if k, ok := clientKinds[cid]; ok {
					return "clientid", k
				}
			}
			if ni, ok := nodeOf[ai]; ok {
				if hasNodes {
					if k, ok := nodeKinds[ni]; ok {
						return "node", k
					}
				}
				if members[ni] {
					return "suffrage", sufKind
				}
			}
			return "defaultmap", defKind
		}
		// a quarter of the histories start with a directed prefix: an address is identified as a consensus node, is
		// served by the suffrage rule, and then the node leaves the consensus nodes (same or new suffrage state hash)
		var script []int
		if hi%4 == 0 {
			delete(nodeKinds, 0)
			if hasNodes {
				setNodes()
			}
			members[0] = true
			script = []int{100, 101, 100, 102, 100}
		}
		for st := 0; st < 4+c.Intn(12)+len(script); st++ {
			time.Sleep(2 * time.Microsecond) // every replacement is newer than every cached limiter
			k := c.Intn(12)
			if st < len(script) {
				k = script[st]
			}
			switch {
			case k == 101:
				if h.AddNode(addrs[0], nodes[0]) {
					nodeOf[0] = 0
				}
				toks = append(toks, "n:0:0")
			case k == 102:
				members[0] = false
				same := c.Bool()
				if !same {
					statehash = valuehash.RandomSHA256()
				}
				toks = append(toks, fmt.Sprintf("m:0:0:%s", map[bool]string{true: "same-hash", false: "new-hash"}[same]))
				c.Count("dyn", "membership")
			case k < 6 || k == 100: // a request
				ai := c.Intn(2)
				cid := ""
				if c.Chance(1, 3) {
					cid = "c1"
				}
				if k == 100 {
					ai, cid = 0, ""
				}
				ctx := context.WithValue(context.Background(), launch.RateLimiterLimiterNameContextKey, "h")
				if cid != "" {
					ctx = context.WithValue(ctx, launch.RateLimiterClientIDContextKey, cid)
				}
				var res launch.RateLimiterResult
				called := false
				rctx, _ := h.Func(ctx, addrs[ai], func(ctx context.Context) (context.Context, error) {
					called = true
					return ctx, nil
				})
				if f, ok := rctx.Value(launch.RateLimiterResultContextKey).(func() launch.RateLimiterResult); ok {
					res = f()
				}
				toks = append(toks, fmt.Sprintf("r:%d:%s", ai, map[bool]string{true: "-", false: cid}[cid == ""]))
				wantT, wantK := selectNow(ai, cid)
				gotK := c36kindOf(res.Limiter)
				hintNow := fmt.Sprintf("%s/%d", cid, nodeIdx(nodeOf, ai))
				in := map[string]interface{}{"history": append([]string{}, toks...)}
				c.Eval(1)
				switch {
				case res.RulesetType != wantT || gotK != wantK:
					cls := "C36:stale-rule-after-change"
					if prev, ok := lastHint[ai]; ok && (prev != hintNow || hintsSeen[ai] > 1) && c36shortCircuitType(res.RulesetType, func() bool { ni, ok := nodeOf[ai]; return ok && members[ni] }()) {
						cls = "C36:cached-limiter-hides-higher-precedence-rule"
					}
					c.Violation(cls, fmt.Sprintf("history %s: served by %s/%s, the rule sets and membership as they are now say %s/%d", strings.Join(toks, " "), res.RulesetType, res.Limiter, wantT, wantK), in)
				case wantK == -2 && called:
					c.Violation("C36:blocked-rule-lets-request-through", fmt.Sprintf("history %s: %s/%s is a blocking rule, the request was handled", strings.Join(toks, " "), res.RulesetType, res.Limiter), in)
				case wantK != -2 && !called:
					c.Violation("C36:request-refused-under-permissive-rule", fmt.Sprintf("history %s: %s/%s refused the request", strings.Join(toks, " "), res.RulesetType, res.Limiter), in)
				}
				if lastHint[ai] != hintNow {
					hintsSeen[ai]++
					lastHint[ai] = hintNow
				}
				c.Count("dyn", "request")
			case k < 7:
				ai, ni := c.Intn(2), c.Intn(2)
				if h.AddNode(addrs[ai], nodes[ni]) {
					nodeOf[ai] = ni
				}
				toks = append(toks, fmt.Sprintf("n:%d:%d", ai, ni))
			case k < 9: // the consensus nodes change, with or without a new suffrage state hash
				ni := c.Intn(2)
				members[ni] = !members[ni]
				same := c.Bool()
				if !same {
					statehash = valuehash.RandomSHA256()
				}
				toks = append(toks, fmt.Sprintf("m:%d:%s:%s", ni, b01(members[ni]), map[bool]string{true: "same-hash", false: "new-hash"}[same]))
				c.Count("dyn", "membership")
			case k < 10:
				sufKind = pickKind(4000)
				_ = rules.SetSuffrageRuleSet(launch.NewSuffrageRateLimiterRuleSet(c36kindMap(sufKind)))
				rules.SetIsInConsensusNodesFunc(rules.IsInConsensusNodesFunc)
				toks = append(toks, fmt.Sprintf("S=%d", sufKind))
				c.Count("dyn", "replace")
			case k < 11:
				defKind = pickKind(5000)
				_ = rules.SetDefaultRuleMap(c36kindMap(defKind))
				toks = append(toks, fmt.Sprintf("M=%d", defKind))
				c.Count("dyn", "replace")
			default:
				if c.Bool() {
					clientKinds["c1"] = pickKind(1000)
					setClient()
					toks = append(toks, fmt.Sprintf("C=%d", clientKinds["c1"]))
				} else {
					ni := c.Intn(2)
					nodeKinds[ni] = pickKind(3000)
					setNodes()
					toks = append(toks, fmt.Sprintf("D%d=%d", ni, nodeKinds[ni]))
				}
				c.Count("dyn", "replace")
			}
		}
		c.Nontrivial("dyn " + strings.Join(toks, " "))
	}
	return nil
}

// the known finding is about limiters whose TYPE lets Rule keep them without looking at the request's hint:
// clientid, net, node - and suffrage as long as the address's node still is a consensus node (ruleByNode);
// a suffrage limiter of a node that has left, or a default limiter, is never that
func c36shortCircuitType(t string, stillMember bool) bool {
	return t == "clientid" || t == "net" || t == "node" || (t == "suffrage" && stillMember)
}

func c36isMember(members []int, nodeOf map[int]int, ai int) bool {
	ni, ok := nodeOf[ai]
	if !ok {
		return false
	}
	for _, m := range members {
		if m == ni {
			return true
		}
	}
	return false
}
