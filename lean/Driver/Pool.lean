import MitumModel.Common
import MitumModel.Model.OpPool
import MitumModel.Model.ExpelPool
import MitumModel.Gen.C23
namespace Mitum.Driver
open Mitum

/-- C22: `seq s:<op>:<fact> h:<limit>:<m>:<r> …` -/
def stepC22 (ts : List String) : String :=
  match ts with
  | "seq" :: ops =>
    let step := fun (acc : OpPool.State × List String × Bool) (t : String) =>
      if acc.2.2 then acc else
      match (t.splitOn ":") with
      | ["s", o, f] =>
        match o.toNat?, f.toNat? with
        | some o, some f =>
          let r := OpPool.setOperation acc.1 { op := o, fact := f }
          (r.1, acc.2.1 ++ [boolStr r.2], false)
        | _, _ => (acc.1, acc.2.1 ++ ["bad-op"], true)
      | ["h", l, m, r] =>
        match l.toNat?, m.toNat?, r.toNat? with
        | some l, some m, some r =>
          let pass := fun (x : OpPool.Rec) => if m = 0 then true else !(x.fact % m == r)
          let res := OpPool.operationHashes l pass acc.1
          (res.2, acc.2.1 ++ ["[" ++ ",".intercalate (res.1.map (fun x => toString x.op)) ++ "]"], false)
        | _, _, _ => (acc.1, acc.2.1 ++ ["bad-op"], true)
      | _ => (acc.1, acc.2.1 ++ ["bad-op"], true)
    joinSp (ops.foldl step (OpPool.init, [], false)).2.1
  | _ => "bad-op"

def c23Cfg : ExpelPool.Cfg :=
  { startAboveContinues := Gen.C23.traverseStartAboveContinues && Gen.C23.lookupStartAboveContinues,
    endBelowStops := Gen.C23.traverseEndBelowStops || Gen.C23.lookupEndBelowStops }

def exId (x : ExpelPool.Ex) : String := s!"{x.node}.{x.start}.{x.stop}"

/-- C23: `seq p:<node>:<start>:<end>:<hash> t:<h> l:<h>:<node> r:<h> …` -/
def stepC23 (ts : List String) : String :=
  match ts with
  | "seq" :: ops =>
    let step := fun (acc : List ExpelPool.Ex × List String) (t : String) =>
      match (t.splitOn ":").map String.toNat? with
      | [none, some n, some s, some e, some h] =>
        (ExpelPool.put acc.1 { node := n, start := s, stop := e, hash := h }, acc.2 ++ ["ok"])
      | [none, some h] =>
        if t.startsWith "t:" then
          (acc.1, acc.2 ++ ["[" ++ ",".intercalate ((ExpelPool.traverse c23Cfg h acc.1).map exId) ++ "]"])
        else (ExpelPool.removeByHeight h acc.1, acc.2 ++ ["ok"])
      | [none, some h, some n] =>
        match ExpelPool.lookup c23Cfg h n acc.1 with
        | some x => (acc.1, acc.2 ++ [exId x])
        | none => (acc.1, acc.2 ++ ["none"])
      | _ => (acc.1, acc.2 ++ ["bad-op"])
    joinSp (ops.foldl step ([], [])).2
  | _ => "bad-op"

end Mitum.Driver
