import MitumModel.Common
import MitumModel.Model.Center
import MitumModel.Gen.C19
namespace Mitum.Driver.CenterDrv
open Mitum Mitum.Center

def fixes : Fixes := { proofExact := Gen.C19.proofExact, byBlockBelowTemps := Gen.C19.byBlockBelowTemps, lastProofHeight := Gen.C19.lastProofHeight }

def csv (s : String) : List String := if s = "" then [] else s.splitOn ","

def block? (p : List String) : Option Block :=
  match p with
  | [h, mid, sts, suf, pol, known, inst] =>
    let states := (csv sts).filterMap (fun e => match e.splitOn "=" with | [k, v] => some (k, v) | _ => none)
    let sufv : Option (Option (Nat × String)) := if suf = "-" then some none else
      match suf.splitOn "/" with
      | [s, id] => s.toNat?.map (fun s => some (s, id))
      | _ => none
    match h.toNat?, sufv with
    | some h, some sufv =>
      -- the suffrage and policy states are states too
      let extra := (match sufv with | some (_, id) => [("suffrage", "suf" ++ id)] | none => []) ++
                   (if pol = "-" then [] else [("network_policy", "pol" ++ pol)])
      some { height := h, mapID := mid, states := states ++ extra, suf := sufv, policy := if pol = "-" then none else some pol,
             known := csv known, inState := csv inst }
    | _, _ => none
  | _ => none

structure H where
  chain : Chain := []
  permCount : Nat := 0
  bad : Bool := false

def stepTok (s : H) (t : String) : H :=
  match t.splitOn ":" with
  | "B" :: rest =>
    match block? rest with
    | some b => { s with chain := s.chain ++ [b] }
    | none => { s with bad := true }
  | ["MERGE"] => { s with permCount := max s.permCount (s.chain.length - 1) }
  | ["REMOVE", h, flag] =>
    match h.toNat? with
    | some h =>
      let can := decide (s.permCount ≤ h) && decide (h < s.chain.length)
      if can != (flag == "1") then { s with bad := true }
      else if can then { s with chain := s.chain.take h } else s
    | none => { s with bad := true }
  | _ => { s with bad := true }

def opt (o : Option String) : String := o.getD "-"

def reads (keys ops : List String) (s : H) : String :=
  let c := s.chain
  let ctr := ofChain c s.permCount
  let next := c.length
  let maxSuf : Int := ((c.filterMap (fun b => b.suf.map (fun x => (x.1 : Int)))).foldl (fun (a : Int) x => max a x) (-1))
  let st := (keys ++ ["suffrage", "network_policy"]).map (fun k => match ctrState ctr k with
    | some (v, h) => s!"{v}@{h}" | none => "-")
  let ms := (List.range (next + 2)).map (fun h => opt (ctrBlockMap ctr h))
  let ps := (List.range (maxSuf + 3).toNat).map (fun sh => opt (ctrProof fixes ctr sh))
  let pb := (List.range (next + 2)).map (fun h => opt (ctrProofByBlock fixes ctr h))
  let lph := match ctrLastProofHeight fixes ctr with | some h => toString h | none => "-"
  let os := ops.map (fun o => boolStr (ctrInState ctr o) ++ boolStr (ctrKnown ctr o))
  s!"S:{",".intercalate st} M:{",".intercalate ms} LM:{opt (ctrLastBlockMap ctr)} P:{",".intercalate ps} PB:{",".intercalate pb} LP:{opt (ctrLastProof ctr)} LPH:{lph} O:{",".intercalate os} POL:{opt (ctrPolicy ctr)}"

end Mitum.Driver.CenterDrv
namespace Mitum.Driver
open Mitum Mitum.Center Mitum.Driver.CenterDrv
/-- `hist K:<keys> O:<ops> ; <tokens…>` -/
def stepC19 (ts : List String) : String :=
  match ts with
  | "hist" :: k :: o :: ";" :: toks =>
    let s := toks.foldl stepTok {}
    if s.bad then "bad-history" else reads (csv (k.drop 2).toString) (csv (o.drop 2).toString) s
  | _ => "bad-op"
end Mitum.Driver
