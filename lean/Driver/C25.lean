import MitumModel.Common
import MitumModel.Model.Prefix
import MitumModel.Gen.C25
import Driver.C29
namespace Mitum.Driver
open Mitum Mitum.Prefix

def c25Prefixes : List Bytes := [[97, 98], [97, 98, 0], [97, 98, 255], [98], [255, 255], [97], [97, 99], [97, 255]]

def toNatBytes (s : String) : Option Bytes := (unhex s).map (fun b => b.map UInt8.toNat)
def hexNat (b : Bytes) : String := hexOf (b.map UInt8.ofNat)
def kvStr (e : Bytes × Bytes) : String := hexNat e.1 ++ "=" ++ hexNat e.2

structure C25St where
  store : Store
  pfx : List (Option Bytes)

def resTok : Res Unit → String
  | .ok _ => "ok"
  | .closed => "closed"

def c25Range (t : String) : Option (Option Range) :=
  if t = "-" then some none
  else if t.startsWith "p" then (toNatBytes (t.drop 1).toString).map (fun b => some (bytesPrefix b))
  else if t.startsWith "s" then (toNatBytes (t.drop 1).toString).map (fun b => some { start := some b, limit := none })
  else if t.startsWith "r" then
    match ((t.drop 1).toString.splitOn ".").mapM toNatBytes with
    | some [a, b] => some (some { start := some a, limit := some b })
    | _ => none
  else none

def stepC25 (ts : List String) : String :=
  let rg := Gen.C25.removeRefusesClosed
  let ig := Gen.C25.iterRefusesClosed
  match ts with
  | "seq" :: ops =>
    let step := fun (acc : C25St × List String) (t : String) =>
      let st := acc.1
      let bad := (st, acc.2 ++ ["bad-op"])
      match t.splitOn ":" with
      | ["put", pi, k, v] =>
        match pi.toNat?, toNatBytes k, toNatBytes v with
        | some pi, some k, some v =>
          let r := pPut st.store (st.pfx.getD pi none) k v
          ({ st with store := r.1 }, acc.2 ++ [resTok r.2])
        | _, _, _ => bad
      | ["del", pi, k] =>
        match pi.toNat?, toNatBytes k with
        | some pi, some k =>
          let r := pDelete st.store (st.pfx.getD pi none) k
          ({ st with store := r.1 }, acc.2 ++ [resTok r.2])
        | _, _ => bad
      | ["get", pi, k] =>
        match pi.toNat?, toNatBytes k with
        | some pi, some k =>
          match pGet st.store (st.pfx.getD pi none) k with
          | .ok (some v) => (st, acc.2 ++ [hexNat v])
          | .ok none => (st, acc.2 ++ ["none"])
          | .closed => (st, acc.2 ++ ["closed"])
        | _, _ => bad
      | ["iter", pi, r] =>
        match pi.toNat?, c25Range r with
        | some pi, some r =>
          match pIter ig st.store (st.pfx.getD pi none) r with
          | .ok l => (st, acc.2 ++ ["[" ++ ",".intercalate (l.map kvStr) ++ "]"])
          | .closed => (st, acc.2 ++ ["closed"])
        | _, _ => bad
      | ["remove", pi] =>
        match pi.toNat? with
        | some pi =>
          let r := pRemove rg st.store (st.pfx.getD pi none)
          ({ st with store := r.1 }, acc.2 ++ [resTok r.2])
        | none => bad
      | ["close", pi] =>
        match pi.toNat? with
        | some pi => ({ st with pfx := st.pfx.set pi none }, acc.2 ++ ["ok"])
        | none => bad
      | ["bfunc", pi, _, kvs] =>
        -- `BatchFunc` through a prefix storage: the puts of all its batches land under the prefix
        match pi.toNat?, (kvs.splitOn ",").mapM (fun kv => match kv.splitOn "." with
            | [k, v] => (match toNatBytes k, toNatBytes v with | some k, some v => some (k, v) | _, _ => none)
            | _ => none) with
        | some pi, some kvs =>
          match st.pfx.getD pi none with
          | none => (st, acc.2 ++ ["closed"])
          | some p => ({ st with store := kvs.foldl (fun s kv => put s (p ++ kv.1) kv.2) st.store }, acc.2 ++ ["ok"])
        | _, _ => bad
      | ["batch", pi, k, v, k2] =>
        match pi.toNat?, toNatBytes k, toNatBytes v, toNatBytes k2 with
        | some pi, some k, some v, some k2 =>
          -- NewBatch captures the prefix; Batch() refuses when closed; batch keys are not checked for emptiness
          match st.pfx.getD pi none with
          | none => (st, acc.2 ++ ["closed"])
          | some p => ({ st with store := delete (put st.store (p ++ k) v) (p ++ k2) }, acc.2 ++ ["ok"])
        | _, _, _, _ => bad
      | ["bremove", a, b, n] =>
        match toNatBytes a, toNatBytes b, n.toNat? with
        | some a, some b, some n =>
          let r := batchRemove (st.store.length + 1) st.store (some a) (some b) n
          ({ st with store := r.1 }, acc.2 ++ [toString r.2])
        | _, _, _ => bad
      | ["dump"] =>
        (st, acc.2 ++ ["[" ++ ",".intercalate ((iter st.store { start := none, limit := none }).map kvStr) ++ "]"])
      | _ => bad
    joinSp (ops.foldl step ({ store := [], pfx := c25Prefixes.map some }, [])).2
  | _ => "bad-op"

end Mitum.Driver
