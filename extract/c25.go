package main

import (
	"go/ast"
	"strings"
)

func init() { register("C25", genC25) }

// refusesClosed: the function contains, before its first use of `needle`, an if statement
// testing a nil prefix whose body returns storage.ErrClosed.
func refusesClosed(f *File, fd *ast.FuncDecl, needle string) bool {
	if fd == nil {
		return false
	}
	for _, st := range fd.Body.List {
		src := normSpace(f.Src(st))
		if is, ok := st.(*ast.IfStmt); ok {
			c := normSpace(f.Src(is.Cond))
			if (c == "st.prefix == nil" || c == "prefix == nil") && strings.Contains(normSpace(f.Src(is.Body)), "storage.ErrClosed") {
				return true
			}
		}
		if strings.Contains(src, needle) {
			return false
		}
	}
	return false
}

func genC25(o *Out) {
	f := o.pinFile("storage/leveldb/prefix.go", "NewPrefixKey", "NewPrefixStorage", "PrefixStorage.Close", "PrefixStorage.Remove",
		"PrefixStorage.Get", "PrefixStorage.Exists", "PrefixStorage.Iter", "PrefixStorage.Put", "PrefixStorage.Delete",
		"PrefixStorage.NewBatch", "PrefixStorage.Batch", "PrefixStorage.BatchFunc", "PrefixStorage.key", "PrefixStorage.origkey",
		"PrefixStorageBatch.Put", "PrefixStorageBatch.Delete", "RemoveByPrefix")
	o.pinFile("storage/leveldb/db.go", "Storage.Get", "Storage.Exists", "Storage.Iter", "Storage.Put", "Storage.Delete", "Storage.Batch", "BatchRemove", "Storage.BatchFunc", "Storage.BatchFuncWithNewBatch", "Storage.batchAddFunc", "Storage.batchDoneFunc")
	if f == nil {
		return
	}
	o.boolean("removeRefusesClosed", refusesClosed(f, f.Func("PrefixStorage", "Remove"), "RemoveByPrefix("))
	o.boolean("iterRefusesClosed", refusesClosed(f, f.Func("PrefixStorage", "Iter"), "BytesPrefix("))
}
