package main

import (
	"strconv"
	"strings"
)

func init() { register("C30", genC30) }

func genC30(o *Out) {
	fh := o.pinFile("network/quicstream/header/header.go", "DataType.IsValid", "BodyType.IsValid")
	fb := o.pinFile("network/quicstream/header/broker.go", "ClientBroker.WriteRequestHead", "ClientBroker.ReadResponseHead",
		"HandlerBroker.WriteResponseHead", "HandlerBroker.ReadRequestHead", "baseBroker.WriteBody", "baseBroker.ReadBody",
		"baseBroker.writeHead", "baseBroker.writeBody", "baseBroker.readDataType", "baseBroker.readBodyType",
		"baseBroker.readEncoder", "baseBroker.readHead", "baseBroker.readBody", "baseBroker.read", "baseBroker.readLength",
		"baseBroker.readLengthed", "readerAt.ReadAt")
	if fh == nil || fb == nil {
		return
	}
	byteConst := func(goName, leanName string) {
		src, ok := fh.ConstValue(goName)
		v := int64(-1)
		if ok {
			s := normSpace(src)
			if strings.HasPrefix(s, "[1]byte{") && strings.HasSuffix(s, "}") {
				if x, err := strconv.ParseInt(s[len("[1]byte{"):len(s)-1], 0, 64); err == nil {
					v = x
				}
			}
		}
		if v < 0 {
			o.errf("header.go: %s is not a [1]byte{..} literal", goName)
			v = 255
		}
		o.nat(leanName, v)
	}
	byteConst("RequestHeaderDataType", "dtRequest")
	byteConst("BodyDataType", "dtBody")
	byteConst("ResponseHeaderDataType", "dtResponse")
	byteConst("EmptyBodyType", "btEmpty")
	byteConst("FixedLengthBodyType", "btFixed")
	byteConst("StreamBodyType", "btStream")
	// readHead checks the decoded header's kind against the data type before anyone type-asserts it
	asserts := false
	if fd := fb.Func("baseBroker", "readHead"); fd != nil {
		src := normSpace(fb.Src(fd.Body))
		asserts = strings.Contains(src, "case RequestHeaderDataType: if _, err := util.AssertInterfaceValue[RequestHeader](header); err != nil { return nil, nil, err }") &&
			strings.Contains(src, "case ResponseHeaderDataType: if _, err := util.AssertInterfaceValue[ResponseHeader](header); err != nil { return nil, nil, err }")
	}
	o.boolean("headAssertsKind", asserts)
}
