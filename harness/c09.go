package main

import (
	"fmt"
	"strings"
	"sync"
	"sync/atomic"
	"time"

	"github.com/spikeekips/mitum/base"
	isaacstates "github.com/spikeekips/mitum/isaac/states"
)

func init() { register("C09", runC09) }

var c09states = []isaacstates.StateType{isaacstates.StateStopped, isaacstates.StateBooting, isaacstates.StateJoining,
	isaacstates.StateConsensus, isaacstates.StateSyncing, isaacstates.StateHandover, isaacstates.StateBroken}

// a state no handler is registered for
const c09nowhere = isaacstates.StateType("NOWHERE")

func c09tok(s isaacstates.StateType) string {
	switch s {
	case isaacstates.StateStopped:
		return "ST"
	case isaacstates.StateBooting:
		return "BO"
	case isaacstates.StateJoining:
		return "JO"
	case isaacstates.StateConsensus:
		return "CO"
	case isaacstates.StateSyncing:
		return "SY"
	case isaacstates.StateHandover:
		return "HA"
	case isaacstates.StateBroken:
		return "BR"
	case c09nowhere:
		return "XX"
	}
	return "??"
}

type c09entry struct {
	enter    bool
	state    isaacstates.StateType
	next     isaacstates.StateType // "" = any
	kind     string
	redirect isaacstates.StateType
}

func (e c09entry) tok() string {
	ph := "x"
	if e.enter {
		ph = "e"
	}
	nx := "*"
	if e.next != isaacstates.StateEmpty {
		nx = c09tok(e.next)
	}
	o := map[string]string{"ok": "ok", "err": "err", "ignore": "ign"}[e.kind]
	if e.kind == "redirect" {
		o = "r" + c09tok(e.redirect)
	}
	return fmt.Sprintf("%s:%s:%s=%s", ph, c09tok(e.state), nx, o)
}

func c09script(tab []c09entry) isaacstates.VerifScript {
	return func(phase string, state, _, next isaacstates.StateType) (string, isaacstates.StateType) {
		for _, e := range tab {
			if e.enter == (phase == "enter") && e.state == state && (e.next == isaacstates.StateEmpty || e.next == next) {
				return e.kind, e.redirect
			}
		}
		return "ok", isaacstates.StateEmpty
	}
}

func runC09(c *Ctx) error {
	n := 500
	if c.Thorough() {
		n = 15000
	}
	local := base.RandomLocalNode()
	for i := 0; i < n; i++ {
		allow := c.Bool()
		// a random outcome table; Broken's enter never redirects (the loop's last resort)
		var tab []c09entry
		for j := 0; j < c.Intn(6); j++ {
			e := c09entry{enter: c.Chance(2, 3), state: c09states[c.Intn(7)]}
			if c.Bool() {
				e.next = c09states[c.Intn(7)]
			}
			switch k := c.Intn(6); {
			case k < 2:
				e.kind = "err"
			case k < 3:
				e.kind = "ignore"
			case k < 5 && e.enter && e.state != isaacstates.StateBroken:
				e.kind = "redirect"
				e.redirect = c09states[1+c.Intn(6)]
			default:
				e.kind = "ok"
			}
			tab = append(tab, e)
		}
		var mu sync.Mutex
		var reports []isaacstates.StateType
		var vs *isaacstates.VerifStates
		var mismatch string
		vs, err := isaacstates.VerifNewStates(hNetworkID, local, allow, c09script(tab), func(s isaacstates.StateType) {
			mu.Lock()
			defer mu.Unlock()
			reports = append(reports, s)
			if cur := vs.Current(); cur != s { // sequential use: the report must name the current state
				mismatch = fmt.Sprintf("reported %s while current is %s", s, cur)
			}
		})
		if err != nil {
			return err
		}
		take := func() string {
			mu.Lock()
			defer mu.Unlock()
			if len(reports) == 0 {
				return "-"
			}
			var t []string
			for _, r := range reports {
				t = append(t, c09tok(r))
			}
			reports = nil
			return strings.Join(t, ",")
		}
		var toks, outs []string
		allowed := allow
		// every eighth history starts with a fixed prefix: the node enters JOINING while allowed, consensus is withdrawn,
		// and then CONSENSUS is asked for from JOINING
		type c09forced struct {
			k          int
			from, next isaacstates.StateType
			v          bool
		}
		var forced []c09forced
		if i%8 == 0 && allow && len(tab) == 0 {
			forced = []c09forced{{k: 0, from: isaacstates.StateStopped, next: isaacstates.StateBooting}, {k: 0, from: isaacstates.StateBooting, next: isaacstates.StateJoining},
				{k: 9, v: false}, {k: 0, from: isaacstates.StateJoining, next: isaacstates.StateConsensus}}
			c.Count("histories", "joining-then-disallowed-prefix")
		}
		nst := 3 + c.Intn(10) + len(forced)
		for st := 0; st < nst; st++ {
			cur := vs.Current()
			from := cur
			if c.Chance(1, 5) {
				from = c09states[c.Intn(7)]
			}
			next := c09states[c.Intn(7)]
			if c.Chance(1, 12) { // a target nobody handles
				next = c09nowhere
			}
			k := c.Intn(10)
			forcedV, isForced := false, false
			if len(forced) > 0 {
				f := forced[0]
				forced = forced[1:]
				k, isForced, forcedV = f.k, true, f.v
				if f.k == 0 {
					from, next = f.from, f.next
				}
			}
			var tok, out string
			switch {
			case k < 5:
				tok = fmt.Sprintf("en:%s:%s", c09tok(from), c09tok(next))
				err := vs.VerifEnsure(from, next)
				res := "ok"
				switch {
				case err == nil:
				case strings.Contains(err.Error(), "states stopped"):
					res = "stopped"
				default:
					res = "error"
				}
				out = fmt.Sprintf("%s/%s/%s", res, c09tok(vs.Current()), take())
			case k < 7:
				tok = fmt.Sprintf("sw:%s:%s", c09tok(from), c09tok(next))
				red, r, err := vs.VerifSwitch(from, next)
				res := "nil"
				switch {
				case red:
					res = "r" + c09tok(r)
				case err != nil:
					res = "error"
				}
				out = fmt.Sprintf("%s/%s/%s", res, c09tok(vs.Current()), take())
			case k < 9:
				tok = fmt.Sprintf("ck:%s:%s", c09tok(from), c09tok(next))
				out = vs.VerifCheck(from, next)
				if strings.HasPrefix(out, "redirect:") {
					out = "redirect:" + c09tok(isaacstates.StateType(out[len("redirect:"):]))
				}
			default:
				v := c.Bool()
				if isForced {
					v = forcedV
				}
				tok = fmt.Sprintf("al:%s", b01(v))
				out = b01(vs.SetAllowConsensus(v))
				allowed = v
			}
			toks = append(toks, tok)
			outs = append(outs, out)
			c.Count("op", tok[:2])
			// oracle
			now := vs.Current()
			if cur == isaacstates.StateStopped && now != cur && now != isaacstates.StateBooting && now != isaacstates.StateBroken && !c09anyRedirect(tab) {
				c.Violation("C09:stopped-left-by-other-edge", fmt.Sprintf("from STOPPED to %s by %s", now, tok), map[string]interface{}{"ops": toks})
			}
			if !allowed && tok[:2] != "al" && cur != isaacstates.StateHandover && cur != isaacstates.StateConsensus && now != cur {
				// enter redirects of the stubs may go anywhere; the property speaks of the switching core: only flag when no stub redirected
				if (now == isaacstates.StateJoining || now == isaacstates.StateConsensus) && !c09anyRedirect(tab) {
					c.Violation("C09:consensus-entered-while-disallowed", fmt.Sprintf("not allowed, %s -> %s by %s", cur, now, tok), map[string]interface{}{"ops": toks})
				}
			}
			if from != cur && (tok[:2] == "en" || tok[:2] == "sw") && now != cur {
				c.Violation("C09:stale-request-has-effect", fmt.Sprintf("the machine is in %s; a request %s (origin %s) moves it to %s", cur, tok, from, now), map[string]interface{}{"ops": toks})
			}
			if mismatch != "" {
				c.Violation("C09:report-differs-from-current", mismatch, map[string]interface{}{"ops": toks})
				mismatch = ""
			}
		}
		var tt []string
		for _, e := range tab {
			tt = append(tt, e.tok())
		}
		ts := "-"
		if len(tt) > 0 {
			ts = strings.Join(tt, ",")
		}
		c.Case(fmt.Sprintf("seq %s T:%s ; %s", b01(allow), ts, strings.Join(toks, " ")), strings.Join(outs, " "))
		c.Nontrivial(ts + strings.Join(toks, " "))
		if i%100 == 0 {
			c.Sample(map[string]interface{}{"allowed": allow, "table": tt, "ops": toks, "results": outs})
		}
	}
	if c.Thorough() {
		c09toggleRace(c, local)
	}
	return nil
}

// the stubs' own redirects may lead anywhere: the oracle speaks of the switching core
func c09anyRedirect(tab []c09entry) bool {
	for _, e := range tab {
		if e.kind == "redirect" {
			return true
		}
	}
	return false
}

// SetAllowConsensus(false) racing with switches SYNCING -> CONSENSUS: the consensus
// handler must never be entered while consensus is not allowed
func c09toggleRace(c *Ctx, local base.LocalNode) {
	iters := 30000
	if c.Thorough() {
		iters = 400000
	}
	var entered int32
	var vs *isaacstates.VerifStates
	script := func(phase string, state, _, _ isaacstates.StateType) (string, isaacstates.StateType) {
		if phase == "enter" && state == isaacstates.StateConsensus && !vs.AllowedConsensus() {
			atomic.AddInt32(&entered, 1)
		}
		return "ok", isaacstates.StateEmpty
	}
	vs, err := isaacstates.VerifNewStates(hNetworkID, local, true, script, func(isaacstates.StateType) {})
	if err != nil {
		return
	}
	_ = vs.VerifEnsure(isaacstates.StateStopped, isaacstates.StateBooting)
	_ = vs.VerifEnsure(isaacstates.StateBooting, isaacstates.StateSyncing)
	var stop int32
	var wg sync.WaitGroup
	wg.Add(1)
	go func() {
		defer wg.Done()
		for atomic.LoadInt32(&stop) == 0 {
			vs.SetAllowConsensus(false)
			vs.SetAllowConsensus(true)
		}
	}()
	var done int64
	finished := make(chan struct{})
	go func() {
		for i := 0; i < iters && atomic.LoadInt32(&entered) == 0; i++ {
			_ = vs.VerifEnsure(isaacstates.StateSyncing, isaacstates.StateConsensus)
			_ = vs.VerifEnsure(isaacstates.StateConsensus, isaacstates.StateSyncing)
			atomic.AddInt64(&done, 1)
		}
		atomic.StoreInt32(&stop, 1)
		wg.Wait()
		close(finished)
	}()
	select {
	case <-finished:
	case <-time.After(20 * time.Second):
		// SetAllowConsensus takes stateLock.RLock and then calls current(), which takes it again; with
		// exitAndEnter waiting for the write lock in between, both block for ever (outside this property)
		c.Note(fmt.Sprintf("toggle race stopped after %d switches: SetAllowConsensus (nested read lock) and exitAndEnter (write lock) blocked each other", atomic.LoadInt64(&done)))
		c.Count("race", "deadlocked")
	}
	c.Eval(int(atomic.LoadInt64(&done)))
	c.Count("race", "toggle-vs-switch")
	if n := atomic.LoadInt32(&entered); n > 0 {
		c.Violation("C09:allow-consensus-toctou", fmt.Sprintf("the CONSENSUS handler was entered %d time(s) while AllowedConsensus() was false: SetAllowConsensus(false) ran between the check and exitAndEnter", n),
			map[string]interface{}{"schedule": "switchState: checkStateSwitchContext (allowed) ; SetAllowConsensus(false) ; exitAndEnter -> CONSENSUS"})
	}
}
