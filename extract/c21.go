package main

import "strings"

func init() { register("C21", genC21) }

func genC21(o *Out) {
	p := o.pinFile("isaac/database/perm_leveldb.go", "LeveldbPermanent.MergeTempDatabase", "LeveldbPermanent.mergeTempDatabaseFromLeveldb", "LeveldbPermanent.loadLastBlockMap")
	t := o.pinFile("isaac/database/temp_leveldb.go", "TempLeveldb.Merge", "TempLeveldb.Remove", "TempLeveldb.isMerged", "NewTempLeveldbFromPrefix", "newTempLeveldbFromBlockWriteStorage")
	w := o.pinFile("isaac/database/block_write.go", "LeveldbBlockWrite.Write", "LeveldbBlockWrite.SetBlockMap", "LeveldbBlockWrite.SetStates", "LeveldbBlockWrite.SetOperations",
		"LeveldbBlockWrite.SetSuffrageProof", "LeveldbBlockWrite.TempDatabase", "LeveldbBlockWrite.batchAdd", "LeveldbBlockWrite.batchDone", "removeHigherHeights")
	c := o.pinFile("isaac/database/center.go", "Center.MergeBlockWriteDatabase", "Center.MergeAllPermanent", "Center.mergePermanent", "Center.removeTemp", "loadTemp", "loadTemps", "mergeToPermanent", "Center.load", "Center.RemoveBlocks")
	u := o.pinFile("util/slice.go", "TraverseSlice")
	_ = o.pinFile("storage/leveldb/prefix.go", "RemoveByPrefix")
	_ = o.pinFile("storage/leveldb/db.go", "BatchRemove", "Storage.Batch", "Storage.Put")
	if p == nil || t == nil || w == nil || c == nil || u == nil {
		return
	}
	body := func(fl *File, recv, name string) string {
		d := fl.Func(recv, name)
		if d == nil {
			o.errf("%s.%s not found", recv, name)
			return ""
		}
		return normSpace(fl.Src(d.Body))
	}
	m := body(p, "LeveldbPermanent", "mergeTempDatabaseFromLeveldb")
	i1 := strings.Index(m, "if bytes.Equal(k, mpkey) { mpvalue = bytes.Clone(v) return true, nil }")
	i2 := strings.Index(m, "if err := worker.Wait(); err != nil {")
	i3 := strings.Index(m, "pst.Put(mpkey, mpvalue, nil)")
	o.boolean("permMapAfterBatches", i1 >= 0 && i1 < i2 && i2 < i3 && strings.Contains(m, "mpkey := leveldbBlockMapKey(temp.Height())"))
	tm := body(t, "TempLeveldb", "Merge")
	o.boolean("markerIsLastWriteOfCommit", strings.Contains(tm, "pst.Put(leveldbTempMergedKey(db.Height()), nil, nil)") &&
		strings.Index(body(c, "Center", "MergeBlockWriteDatabase"), "temp.Merge()") >= 0)
	lt := body(c, "", "loadTemps")
	o.boolean("tempsLoadedAbovePermanentLast", strings.Contains(lt, "loadTemp(st, last+1, encs, enc)") && strings.Contains(lt, "last = temp.Height()") &&
		strings.Contains(lt, "removeHigherHeights(st, temps[len(temps)-1].Height()+1)"))
	l1 := body(c, "", "loadTemp")
	o.boolean("onlyMergedTempsLoaded", strings.Contains(l1, "switch ismerged, err := temp.isMerged(); {") && strings.Contains(l1, "case !ismerged: useless = append(useless, prefix) continue"))
	mp := body(c, "", "mergeToPermanent")
	a := strings.Index(mp, "perm.MergeTempDatabase(ctx, temp)")
	b := strings.Index(mp, "remove(temp)")
	o.boolean("tempRemovedAfterMerge", a >= 0 && a < b && strings.Contains(mp, "if len(temps) < 2 {"))
	// RemoveBlocks removes the temps newest first: db.temps is kept newest first (a new temp is put in front, loadTemps
	// sorts by descending height), the slice up to the asked height is walked from its start, one Remove at a time
	rb := body(c, "Center", "RemoveBlocks")
	mb := body(c, "Center", "MergeBlockWriteDatabase")
	o.boolean("removeBlocksNewestFirst", strings.Contains(rb, "if err := util.TraverseSlice(db.temps[:index+1], func(_ int, temp isaac.TempDatabase) error { return temp.Remove() }); err != nil { return false, err }") &&
		strings.Contains(rb, "case height > db.temps[0].Height(): return false, nil") &&
		strings.Contains(body(u, "", "TraverseSlice"), "for i := range s { if err := f(i, s[i]); err != nil { return err } }") &&
		strings.Contains(mb, "temps[0] = temp copy(temps[1:], db.temps)") &&
		strings.Contains(lt, "sort.Slice(temps, func(i, j int) bool { return temps[i].Height() > temps[j].Height() })"))
}
