import MitumModel.Model.ExpelPool
import MitumModel.Lemmas.Sort
import MitumModel.Gen.C23
import MitumModel.Pins
/-!
C23  Expel-operation pool lookups match the stored ranges.
-/
namespace Mitum.C23
open Mitum Mitum.ExpelPool

/-- descending by end height: what the key layout `prefix ‖ end ‖ hash` and the reverse
    iteration give -/
def SortedDesc (l : List Ex) : Prop := l.Pairwise (fun a b => b.stop ≤ a.stop)

theorem filter_covers_nil_of_below (h : Nat) (l : List Ex) (hl : ∀ x ∈ l, x.stop < h) :
    l.filter (fun x => covers x h) = [] := by
  apply List.filter_eq_nil_iff.mpr
  intro x hx
  have := hl x hx
  unfold covers; simp; intro _; omega

/-- ✦ traversal at a height visits exactly the stored operations whose range covers it
    (in key order), for every stored set and every height. -/
theorem traverse_visits_exactly_covering (c : Cfg) (hc : c.startAboveContinues = true)
    (h : Nat) (l : List Ex) (hs : SortedDesc l) :
    traverse c h l = l.filter (fun x => covers x h) := by
  induction l with
  | nil => rfl
  | cons r rs ih =>
    have hp := List.pairwise_cons.mp hs
    have ih' := ih hp.2
    unfold traverse
    by_cases h1 : r.stop < h
    · have hcov : covers r h = false := by unfold covers; simp; intro _; omega
      simp only [h1, if_true, List.filter_cons, hcov]
      cases c.endBelowStops
      · simpa using ih'
      · simp only [if_true]
        exact (filter_covers_nil_of_below h rs (fun x hx => by have := hp.1 x hx; omega)).symm
    · simp only [h1, if_false]
      by_cases h2 : h < r.start
      · have hcov : covers r h = false := by unfold covers; simp; omega
        simp only [h2, if_true, hc, List.filter_cons, hcov]
        simpa using ih'
      · have hcov : covers r h = true := by unfold covers; simp; omega
        simp only [h2, if_false, List.filter_cons, hcov, if_true]
        rw [ih']

/-- ✦ a node lookup returns only a stored operation of that node covering the height … -/
theorem lookup_sound (c : Cfg) (h node : Nat) (l : List Ex) (r : Ex)
    (hl : lookup c h node l = some r) : r ∈ l ∧ r.node = node ∧ covers r h = true := by
  induction l with
  | nil => simp [lookup] at hl
  | cons x xs ih =>
    unfold lookup at hl
    by_cases h0 : x.node ≠ node
    · rw [if_pos h0] at hl
      have := ih hl; exact ⟨List.mem_cons_of_mem _ this.1, this.2⟩
    · rw [if_neg h0] at hl
      by_cases h1 : x.stop < h
      · simp only [h1, if_true] at hl
        cases hb : c.endBelowStops <;> simp [hb] at hl
        have := ih hl; exact ⟨List.mem_cons_of_mem _ this.1, this.2⟩
      · simp only [h1, if_false] at hl
        by_cases h2 : h < x.start
        · simp only [h2, if_true] at hl
          cases hb : c.startAboveContinues <;> simp [hb] at hl
          have := ih hl; exact ⟨List.mem_cons_of_mem _ this.1, this.2⟩
        · simp only [h2, if_false] at hl
          injection hl with hl; subst hl
          refine ⟨by simp, by simpa using h0, ?_⟩
          unfold covers; simp; omega

/-- ✦ … and finds one exactly when such an operation exists. -/
theorem lookup_complete (c : Cfg) (hc : c.startAboveContinues = true) (h node : Nat) (l : List Ex)
    (hs : SortedDesc l) (hex : ∃ r ∈ l, r.node = node ∧ covers r h = true) :
    (lookup c h node l).isSome = true := by
  induction l with
  | nil => obtain ⟨r, hr, _⟩ := hex; simp at hr
  | cons x xs ih =>
    have hp := List.pairwise_cons.mp hs
    obtain ⟨r, hr, hn, hcv⟩ := hex
    have hcv' : r.start ≤ h ∧ h ≤ r.stop := by unfold covers at hcv; simpa using hcv
    unfold lookup
    by_cases h0 : x.node ≠ node
    · rw [if_pos h0]
      rcases List.mem_cons.mp hr with rfl | hr'
      · exact absurd hn h0
      · exact ih hp.2 ⟨r, hr', hn, hcv⟩
    · rw [if_neg h0]
      by_cases h1 : x.stop < h
      · -- every later key ends even earlier: r cannot be in the tail, and r ≠ x
        rcases List.mem_cons.mp hr with rfl | hr'
        · omega
        · have := hp.1 r hr'; omega
      · simp only [h1, if_false]
        by_cases h2 : h < x.start
        · simp only [h2, if_true, hc]
          rcases List.mem_cons.mp hr with rfl | hr'
          · omega
          · exact ih hp.2 ⟨r, hr', hn, hcv⟩
        · simp [h2]

theorem lookup_iff_exists (c : Cfg) (hc : c.startAboveContinues = true) (h node : Nat) (l : List Ex)
    (hs : SortedDesc l) :
    (lookup c h node l).isSome = true ↔ ∃ r ∈ l, r.node = node ∧ covers r h = true := by
  constructor
  · intro hsome
    cases hl : lookup c h node l with
    | none => simp [hl] at hsome
    | some r => exact ⟨r, lookup_sound c h node l r hl⟩
  · exact lookup_complete c hc h node l hs

/-- ✦ removing by height removes exactly the operations that ended at or before it. -/
theorem remove_exactly_ended (h : Nat) (l : List Ex) (r : Ex) :
    r ∈ removeByHeight h l ↔ r ∈ l ∧ h < r.stop := by
  unfold removeByHeight; simp [List.mem_filter]

theorem keyGe_total (a b : Ex) : keyGe a b = true ∨ keyGe b a = true := by
  unfold keyGe; simp; omega

theorem keyGe_trans (a b c : Ex) (h1 : keyGe a b = true) (h2 : keyGe b c = true) : keyGe a c = true := by
  unfold keyGe at *; simp at *; omega

/-- ✦ the store kept by `put` is always in descending end order (the hypothesis of the
    theorems above is an invariant). -/
theorem put_sorted (store : List Ex) (r : Ex) : SortedDesc (put store r) := by
  unfold put SortedDesc
  refine List.Pairwise.imp ?_ (sortBy_pairwise keyGe keyGe_total keyGe_trans _)
  intro a b hab
  unfold keyGe at hab; simp at hab; omega

theorem put_mem (store : List Ex) (r x : Ex) :
    x ∈ put store r ↔ x = r ∨ (x ∈ store ∧ (¬ x.stop = r.stop ∨ ¬ x.hash = r.hash)) := by
  unfold put
  rw [(sortBy_perm _ _).mem_iff]
  simp [List.mem_filter]

/-- ✗ why the regenerated fact matters: with the unrepaired outcome (stop when a range starts
    above the height) the traversal at height 5 over `[7,10]`, `[1,9]` visits nothing. -/
theorem start_above_witness :
    traverse { startAboveContinues := false, endBelowStops := true } 5
      [{ node := 1, start := 7, stop := 10, hash := 0 }, { node := 1, start := 1, stop := 9, hash := 0 }] = [] ∧
    covers { node := 1, start := 1, stop := 9, hash := 0 } 5 = true := by decide

/-- configuration instantiated from the regenerated branch outcomes -/
def genCfg : Cfg :=
  { startAboveContinues := Gen.C23.traverseStartAboveContinues && Gen.C23.lookupStartAboveContinues,
    endBelowStops := Gen.C23.traverseEndBelowStops || Gen.C23.lookupEndBelowStops }

/-- ✦ facts of the current source: both iteration callbacks continue past a range that starts
    above the height; removal keeps exactly `End > height`; pins. -/
theorem facts_ok :
    Gen.C23.extractErrors = [] ∧ genCfg.startAboveContinues = true ∧
    Gen.C23.removeKeepsCond = "r.End() > heighti" ∧ Gen.C23.pins = Pins.C23 := by
  refine ⟨by decide, by decide, by decide, by decide⟩

example : SortedDesc [{ node := 1, start := 7, stop := 10, hash := 0 }, { node := 1, start := 1, stop := 9, hash := 0 }] := by
  unfold SortedDesc; simp
example : traverse { startAboveContinues := true, endBelowStops := true } 5
      [{ node := 1, start := 7, stop := 10, hash := 0 }, { node := 1, start := 1, stop := 9, hash := 0 }]
      = [{ node := 1, start := 1, stop := 9, hash := 0 }] := by decide

end Mitum.C23
