import MitumModel.Common
/-
Model of the part of block production that runs in parallel
(isaac/proposal_processor.go processOperations: `Process` of every pre-processed
operation in a job worker; isaac/block/writer.go SetProcessResult / SetStates;
isaac/block/states_merger.go DefaultStatesMerger; the value mergers of
isaac/operation and base.BaseStateValueMerger).

What the workers do, in whatever order the scheduler lets them:
* `SetProcessResult(index, node)` writes node `index` of the operations tree;
* `SetStates` hands every merge value of an operation to the merger of its state key
  (`Merge` appends under the merger's lock).
Afterwards, sequentially: holes of the operations tree are dropped, the state keys are
sorted, every merger is closed, the states tree is filled in key order.
Sequential pre-processing (which decides *which* operations are processed) is C17's model.
-/
namespace Mitum.Merge

structure MV where
  key : Nat      -- state key
  pay : Nat      -- payload: the address joined / disjoined / added / removed, or the id of a policy
  rem : Bool     -- set-like mergers: true = a removal
  op : Nat       -- fact hash of the operation that produced it
deriving Repr, DecidableEq

inductive Kind where
  | join        -- SuffrageJoinStateValueMerger: existing minus disjoined, joined sorted by address appended
  | candidates  -- SuffrageCandidatesStateValueMerger: existing minus removed minus re-added, added sorted appended
  | lastWins    -- base.BaseStateValueMerger: the value merged last
deriving Repr, DecidableEq

/-- insertion sort (the real code sorts by address / hash string; any total order does) -/
def ins (a : Nat) : List Nat → List Nat
  | [] => [a]
  | b :: r => if a ≤ b then a :: b :: r else b :: ins a r

def sortN : List Nat → List Nat
  | [] => []
  | a :: r => ins a (sortN r)

def closeValue (k : Kind) (existing : List Nat) (vs : List MV) : List Nat :=
  let removed := (vs.filter (·.rem)).map (·.pay)
  let added := (vs.filter (fun v => !v.rem)).map (·.pay)
  match k with
  | .join => existing.filter (fun x => !removed.contains x) ++ sortN added
  | .candidates => existing.filter (fun x => !removed.contains x && !added.contains x) ++ sortN added
  | .lastWins => match vs.getLast? with
    | some v => [v.pay]
    | none => []

/-- the closed state of one key: (key, value, operations sorted) -/
def closeKey (kinds : Nat → Kind) (existing : Nat → List Nat) (arrivals : List MV) (k : Nat) : Nat × List Nat × List Nat :=
  let vs := arrivals.filter (fun v => v.key == k)
  (k, closeValue (kinds k) (existing k) vs, sortN (vs.map (·.op)))

/-- the states tree: the keys that received a value, in the fixed sorted order of all keys -/
def statesOf (allKeys : List Nat) (kinds : Nat → Kind) (existing : Nat → List Nat) (arrivals : List MV) :
    List (Nat × List Nat × List Nat) :=
  (allKeys.filter (fun k => arrivals.any (fun v => v.key == k))).map (closeKey kinds existing arrivals)

def lookup (ws : List (Nat × Nat)) (i : Nat) : Option Nat :=
  match ws with
  | [] => none
  | (j, n) :: r => if j = i then some n else lookup r i

/-- the operations tree: node `i` is what was written at index `i`; indices nobody wrote are dropped -/
def opsTreeOf (n : Nat) (writes : List (Nat × Nat)) : List Nat := (List.range n).filterMap (lookup writes)

/-- what the manifest commits to -/
def manifestOf (n : Nat) (allKeys : List Nat) (kinds : Nat → Kind) (existing : Nat → List Nat)
    (writes : List (Nat × Nat)) (arrivals : List MV) : List Nat × List (Nat × List Nat × List Nat) :=
  (opsTreeOf n writes, statesOf allKeys kinds existing arrivals)

end Mitum.Merge
