package main

import (
	"regexp"
	"strings"
)

func init() { register("C09", genC09) }

func genC09(o *Out) {
	f := o.pinFile("isaac/states/states.go", "States.AskMoveState", "States.ensureSwitchState", "States.switchState", "States.exitAndEnter",
		"States.checkStateSwitchContext", "States.checkHandoverStateSwitchContext", "States.SetAllowConsensus", "States.setAllowConsensus",
		"States.AllowedConsensus", "States.current", "States.Hold")
	if f == nil {
		return
	}
	var edges []string
	bound := int64(-1)
	if fd := f.Func("States", "checkStateSwitchContext"); fd != nil {
		src := normSpace(f.Src(fd.Body))
		re := regexp.MustCompile(`if current != nil && current\.state\(\) == StateStopped \{ switch nsctx\.next\(\) \{ case ([A-Za-z, ]+): default: return ErrIgnoreSwitchingState`)
		if m := re.FindStringSubmatch(src); m != nil {
			for _, e := range strings.Split(m[1], ",") {
				edges = append(edges, strings.TrimSpace(e))
			}
		} else {
			o.errf("states.go: the stopped-state clause of checkStateSwitchContext was not recognised")
		}
	}
	if fd := f.Func("States", "ensureSwitchState"); fd != nil {
		src := normSpace(f.Src(fd.Body))
		re := regexp.MustCompile(`if n > (\d+) \{`)
		if m := re.FindStringSubmatch(src); m != nil {
			bound, _ = intLit(m[1])
		}
	}
	o.strList("stoppedEdges", edges)
	o.nat("loopBound", bound)
	redir := false
	if fd := f.Func("States", "exitAndEnter"); fd != nil {
		src := normSpace(f.Src(fd.Body))
		redir = strings.Contains(src, "if errors.As(err, &nsctx) {") && strings.Contains(src, "st.cs = nextHandler return nil, nil, err }")
	}
	o.boolean("enterRedirectSetsCurrent", redir)
}
